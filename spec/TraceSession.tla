---------------------------- MODULE TraceSession ----------------------------
(***************************************************************************)
(* Trace validation of recorded client sessions (impl -> spec).            *)
(* Every API call, its result, and EVERY datagram in both directions (raw  *)
(* octets) is one ndjson event; TLC decodes the octets itself (SNMP.tla),  *)
(* abstracts each datagram to the record alphabet of Session.tla and       *)
(* applies the same Outcome operator, so the judgement "this request is    *)
(* what the caller asked for" / "this is the reply that had to be          *)
(* delivered" is made by the specification, not by harness code.           *)
(*                                                                         *)
(* Events (one per spec action, in call order):                            *)
(*  Open   sid ver community user engine auth priv akt akm pkt pkm maxbuf   *)
(*  Send   sid op oids names maxrep exc bases nwire wire interp            *)
(*  Inject sid dgram interp                                                *)
(*  Recv   sid op res exc bases interp                                     *)
(*  SetKeys sid user auth priv akt akm pkt pkm                             *)
(*  Close  sid                                                             *)
(* Uninterpreted functions (HMAC, key localisation, ciphers, REAL          *)
(* rounding) are looked up in the event's interpretation table `interp`;   *)
(* TLC chooses the arguments (which key, which octets, which IV), the      *)
(* harness only evaluates.                                                 *)
(***************************************************************************)
EXTENDS Wire, Json, IOUtils

CONSTANTS MaxSid,            \* sessions are numbered 1..MaxSid
          Props              \* set of property ids whose conjuncts are enforced

SessOps == INSTANCE Session WITH Ver <- "v2c", HasAuth <- FALSE, HasPriv <- FALSE, MaxReq <- 0, MaxInbox <- 0,
              MaxInject <- 0, DEV_NoIncomingMacCheck <- FALSE, WithSecMutants <- FALSE,
              sess <- 0, pending <- FALSE, inbox <- <<>>, result <- 0, nsent <- 0, ninj <- 0, hist <- <<>>

Rec == ndJsonDeserialize(IOEnv.TRACE)

VARIABLES l, S,
          fails      \* indices of events that violate a property; the session concerned is then "tainted"
                     \* (not judged any further until it is closed), so that ONE pass reports every failing script
tvars == <<l, S, fails>>

Closed == [open |-> FALSE, tainted |-> TRUE]
TInit == l = 1 /\ S = [i \in 1..MaxSid |-> Closed] /\ fails = <<>>

(* judge an event: if `ok` the session moves to `good`, otherwise the event index is recorded *)
Judge(sid, ok, good) ==
  IF ok THEN S' = [S EXCEPT ![sid] = good] /\ UNCHANGED fails
  ELSE /\ S' = [S EXCEPT ![sid] = [@ EXCEPT !.tainted = TRUE]]
       /\ fails' = IF Len(fails) < 5000 THEN Append(fails, l) ELSE fails

IsEvent(e) == l <= Len(Rec) /\ Rec[l].ev = e /\ l' = l + 1
On(p) == p \in Props

-----------------------------------------------------------------------------
(* interpretation-table lookups; a missing entry yields <<"missing">> which never equals real octets *)
Missing == <<"missing">>
Pick(interp, P(_)) == LET idx == {i \in 1..Len(interp) : P(interp[i])} IN
                      IF idx = {} THEN Missing ELSE interp[CHOOSE i \in idx : TRUE].out

IHmac(interp, alg, key, msg) ==
  Pick(interp, LAMBDA x : x.f = "hmac96" /\ x.alg = alg /\ x.key = key /\ x.msg = msg)
IKul(interp, alg, kt, km, engine) ==
  IF kt = "localized" THEN km
  ELSE Pick(interp, LAMBDA x : x.f = "kul" /\ x.alg = alg /\ x.kt = kt /\ x.km = km /\ x.engine = engine)
IDecrypt(interp, cipher, key, salt, boots, time, data) ==
  Pick(interp, LAMBDA x : x.f = "decrypt" /\ x.cipher = cipher /\ x.key = key /\ x.salt = salt
                           /\ x.boots = boots /\ x.time = time /\ x.data = data)

(* the user's keys localised to `engine` (RFC 3414 2.6, A.2); the privacy key is localised with the AUTH digest *)
AuthKey(s, interp, engine) == IKul(interp, s.auth, s.akt, s.akm, engine)
PrivKeyFull(s, interp, engine) == IKul(interp, s.auth, s.pkt, s.pkm, engine)
First16(k) == IF Len(k) >= 16 THEN SubSeq(k, 1, 16) ELSE k
U32Octets(v) == LET m == v.mag IN Fill(4 - Len(m), 0) \o m         \* boots / time as 4 octets (values < 2^32)

-----------------------------------------------------------------------------
NoWalk == [active |-> FALSE, wbuf |-> <<>>, wstop |-> FALSE, werr |-> FALSE, yielded |-> <<>>, honest |-> FALSE, mib |-> <<>>]

TOpen ==
  /\ IsEvent("Open") /\ UNCHANGED fails
  /\ LET e == Rec[l] IN
     S' = [S EXCEPT ![e.sid] =
             [open |-> TRUE, tainted |-> FALSE, ver |-> e.ver, community |-> e.community, user |-> e.user,
              engine |-> e.engine, boots |-> Zero, time |-> Zero,
              auth |-> e.auth, priv |-> e.priv, akt |-> e.akt, akm |-> e.akm, pkt |-> e.pkt, pkm |-> e.pkm,
              \* the credentials the CALLER configured the session with (they may be installed later: deferred user)
              apiuser |-> e.apiuser, apiauth |-> e.apiauth, apipriv |-> e.apipriv, synced |-> e.user = e.apiuser,
              maxbuf |-> e.maxbuf, pending |-> FALSE, op |-> "", reqid |-> Zero, msgid |-> Zero,
              it |-> [start |-> <<>>, last |-> <<>>], inbox |-> <<>>,
              salts |-> {}, lastSalt |-> <<>>, gap |-> 0,
              recent |-> <<>>,          \* octets of the most recent traffic of the session (C17: stale padding)
              walk |-> NoWalk]]

(* C05 / C06: a subtree walk through the SnmpSession iterators.  wbuf = pairs the iterator still has to hand
   out (in order), wstop = the walk must end when wbuf is exhausted, yielded = names handed out so far. *)

TWalkStart ==
  /\ IsEvent("WalkStart") /\ UNCHANGED fails
  /\ LET e == Rec[l]
         b == OidFromText(e.base).content IN
     S' = [S EXCEPT ![e.sid] = [@ EXCEPT !.it = [start |-> b, last |-> b],
                                        !.walk = [active |-> TRUE, wbuf |-> <<>>, wstop |-> FALSE, werr |-> FALSE, yielded |-> <<>>,
                                                  honest |-> e.honest, mib |-> e.mib]]]

(* C05: the entries of the MIB lying strictly below the base, in MIB (lexicographic) order *)
SubtreeNames(mib, base) == SelectSeq(mib, LAMBDA n : InSubtree(base, n) /\ NormSubs(n) # NormSubs(base))

TYield ==
  /\ IsEvent("Yield")
  /\ LET e == Rec[l]  s == S[e.sid] IN
     IF s.tainted THEN UNCHANGED <<S, fails>>
     ELSE Judge(e.sid,
                /\ s.walk.active /\ s.walk.wbuf # <<>>
                /\ PairMatches(Head(s.walk.wbuf), e.res, e.interp),          \* in the order received, exact values
                [s EXCEPT !.walk = [@ EXCEPT !.wbuf = Tail(@), !.yielded = Append(@, Head(s.walk.wbuf).name)]])

TWalkEnd ==
  /\ IsEvent("WalkEnd")
  /\ LET e == Rec[l]  s == S[e.sid] IN
     IF s.tainted THEN UNCHANGED <<S, fails>>
     ELSE Judge(e.sid,
                /\ s.walk.active /\ s.walk.wbuf = <<>>                       \* nothing accepted is withheld
                /\ ExcIn("Stop", e.exc, e.bases) =>
                      /\ s.walk.wstop                                        \* ends only when the replies say so
                      /\ s.walk.honest => s.walk.yielded = SubtreeNames(s.walk.mib, s.it.start)   \* C05
                /\ ~ExcIn("Stop", e.exc, e.bases) => (s.walk.wstop /\ s.walk.werr),   \* only an error seen by the receiving call (judged at
                                                                                  \* Recv: timeout, undecodable, error reply) ends a walk otherwise
                [s EXCEPT !.walk = NoWalk])

TClose == /\ IsEvent("Close") /\ S' = [S EXCEPT ![Rec[l].sid] = Closed] /\ UNCHANGED fails

TSetKeys ==
  /\ IsEvent("SetKeys") /\ UNCHANGED fails
  /\ LET e == Rec[l] IN
     IF e.exc # "" THEN UNCHANGED S          \* refused (C12): the installation in force - keys, salt counter - stays as it was
     ELSE
     S' = [S EXCEPT ![e.sid] = [@ EXCEPT !.user = e.user, !.auth = e.auth, !.priv = e.priv, !.akt = e.akt,
                                         !.akm = e.akm, !.pkt = e.pkt, !.pkm = e.pkm,
                                         !.salts = {}, !.lastSalt = <<>>, !.gap = 0]]    \* C14: uniqueness is per key installation

-----------------------------------------------------------------------------
(* C03 / C08 / C09 / C11 / C13 / C14 / C15: the datagram a call puts on the wire *)
HasAuth(s) == s.ver = "v3" /\ s.auth # "none"
HasPriv(s) == s.ver = "v3" /\ s.priv # "none"
Block(s) == IF s.priv = "des" THEN 8 ELSE 16

OidClasses(e) == [i \in 1..Len(e.oids) |-> OidFromText(e.oids[i])]
ExpectedNames(e) == IF e.names # <<>> THEN e.names
                    ELSE [i \in 1..Len(e.oids) |-> OidFromText(e.oids[i]).content]
(* requests issued by a walk ask for the last OID the walk accepted (C06) - taken from the specification's
   own iterator state, not from the trace *)
NamesFor(s, e) == IF e.walk THEN <<s.it.last>> ELSE ExpectedNames(e)

V3HeaderOK(s, m, e) ==
  /\ m.usm.user = s.user
  /\ On("C13") => /\ m.usm.engine = s.engine                       \* the session's current view of the agent
                  /\ m.usm.boots = s.boots /\ m.usm.time = s.time
  /\ m.hdr.fAuth = HasAuth(s) /\ m.hdr.fPriv = HasPriv(s)          \* C09 / C14 flags
  /\ m.hdr.fReport = (e.op = "refresh")
  \* C03 / C13: data requests go out under the user and security level the caller configured - never under the
  \* temporary discovery identity, whatever happened during discovery
  \* (a caller that ignores a FAILED refresh()/enter and sends anyway is outside the statement; `synced` = some refresh
  \*  exchange of this session has completed)
  /\ (e.op # "refresh" /\ s.synced) => (s.user = s.apiuser /\ s.auth = s.apiauth /\ s.priv = s.apipriv)
  /\ ReqIdInRange(m.hdr.msgId)
  /\ m.hdr.maxSize.neg = FALSE /\ Cmp(m.hdr.maxSize.mag, <<1, 227>>) > 0    \* msgMaxSize >= 484 (RFC 3412)

(* C09: 12-octet HMAC over the whole message with the field zeroed, key localised to the engine id IN the message *)
MacOK(s, b, m, interp) ==
  IF HasAuth(s)
    THEN /\ Len(m.usm.auth) = 12
         /\ m.usm.auth = IHmac(interp, s.auth, AuthKey(s, interp, m.usm.engine), ZeroAuth(b, m.usm))
    ELSE m.usm.auth = <<>>

(* C11: msgData decrypts (key localised with the auth digest, IV from transmitted salt + boots/time)
        to exactly the scoped PDU, followed by less than one block of padding *)
PlainOf(s, m, interp) ==
  IDecrypt(interp, s.priv, First16(PrivKeyFull(s, interp, m.usm.engine)), m.usm.priv,
           U32Octets(m.usm.boots), U32Octets(m.usm.time), m.data)

ScopedOK(s, sc, e) ==
  /\ sc.ctxEngine = s.engine /\ sc.ctxName = <<>>
  /\ PduMatchesCall(sc.pdu, e.op, NamesFor(s, e), e.maxrep)

(* C14: salts never repeat within a key installation and advance by one per message *)
(* n-th successor of a fixed-width big-endian counter *)
RECURSIVE SuccN(_, _, _)
SuccN(c, w, n) == IF n = 0 THEN c
                  ELSE LET x == AddOneBE(c) IN SuccN(IF Len(x) > w THEN SubSeq(x, 2, w + 1) ELSE x, w, n - 1)
(* a request that was refused (nothing sent) may or may not have consumed a counter value: after `gap`
   refusals the next salt is previous + 1 .. previous + 1 + gap *)
SaltOK(s, m) ==
  /\ Len(m.usm.priv) = 8
  /\ m.usm.priv \notin s.salts
  /\ s.lastSalt # <<>> =>
       (IF s.priv = "des"
          THEN \E k \in 1..(1 + s.gap) : SubSeq(m.usm.priv, 5, 8) = SuccN(SubSeq(s.lastSalt, 5, 8), 4, k)
          ELSE \E k \in 1..(1 + s.gap) : m.usm.priv = SuccN(s.lastSalt, 8, k))
  /\ s.priv = "des" => SubSeq(m.usm.priv, 1, 4) = U32Octets(m.usm.boots)

(* C14: nothing of the scoped PDU in clear: the request's OID octets occur nowhere in the datagram *)
Occurs(x, b) == \E i \in 1..(Len(b) - Len(x) + 1) : SubSeq(b, i, i + Len(x) - 1) = x
NoLeak(e) == \A i \in 1..Len(ExpectedNames(e)) :
                Len(ExpectedNames(e)[i]) >= 5 => ~Occurs(ExpectedNames(e)[i], e.wire)

(* C17: the padding behind the scoped PDU inside msgData is written for THIS message.  The library pads with zero octets;
   any padding is accepted (also a constant non-zero one) unless it reproduces four or more consecutive octets of what the session recently sent or
   received (ciphertext or plaintext): bytes of the private buffer that were never written for this message. *)
AllZero(x) == \A i \in 1..Len(x) : x[i] = 0
\* plaintext(s) of the datagram just sent / injected, WITHOUT their own padding: a constant non-zero padding legitimately recurs in
\* every message and is not "recent traffic"; what must not reappear is ciphertext and the scoped PDUs themselves
Unpadded(x) == LET sp == DecodePlain(x) IN IF sp.c <= NonMin /\ sp.padLen <= Len(x) THEN SubSeq(x, 1, Len(x) - sp.padLen) ELSE x
DecryptOutputs(interp) == LET idx == {i \in 1..Len(interp) : interp[i].f = "decrypt"} IN
                          IF idx = {} THEN <<>> ELSE <<Unpadded(interp[CHOOSE i \in idx : TRUE].out)>>
LastN(q, n) == IF Len(q) <= n THEN q ELSE SubSeq(q, Len(q) - n + 1, Len(q))
PadOK(s, plain, padLen) ==
  LET pad == SubSeq(plain, Len(plain) - padLen + 1, Len(plain)) IN
  AllZero(pad) \/ Len(pad) < 4 \/ \A i \in 1..Len(s.recent) : ~Occurs(pad, s.recent[i])

WireOK(s, e) ==
  LET d == Decode(s.ver, e.wire) IN
  /\ d.c = Accept                                   \* well-formed, definite, minimal (C03 / C15)
  /\ IF s.ver # "v3"
       THEN /\ d.m.community = s.community
            /\ PduMatchesCall(d.m.pdu, e.op, NamesFor(s, e), e.maxrep)
       ELSE /\ V3HeaderOK(s, d.m, e)
            /\ On("C09") => MacOK(s, e.wire, d.m, e.interp)
            /\ IF HasPriv(s)
                 THEN /\ d.m.enc
                      /\ On("C14") => (SaltOK(s, d.m) /\ NoLeak(e))
                      /\ LET plain == PlainOf(s, d.m, e.interp)
                             sp == IF plain = Missing THEN Rej("no-plaintext") ELSE DecodePlain(plain) IN
                         /\ On("C11") => /\ sp.c = Accept
                                         /\ sp.padLen < Block(s)
                                         /\ ScopedOK(s, sp.scoped, e)
                         /\ (On("C17") /\ sp.c = Accept) => PadOK(s, plain, sp.padLen)
                 ELSE /\ ~d.m.enc /\ d.m.usm.priv = <<>>
                      /\ ScopedOK(s, d.m.scoped, e)

(* session state after a successful send *)
AfterSend(s, e) ==
  LET d == Decode(s.ver, e.wire)
      pdu == IF s.ver # "v3" THEN d.m.pdu
             ELSE IF ~d.m.enc THEN d.m.scoped.pdu
             ELSE LET plain == PlainOf(s, d.m, e.interp) IN
                  IF plain = Missing \/ DecodePlain(plain).c >= Free THEN [reqid |-> Zero]
                  ELSE DecodePlain(plain).scoped.pdu
      names == NamesFor(s, e)
  IN [s EXCEPT !.pending = TRUE, !.op = e.op, !.reqid = pdu.reqid,
               !.msgid = IF s.ver = "v3" THEN d.m.hdr.msgId ELSE Zero,
               !.it = IF e.walk THEN @
                      ELSE IF e.op \in {"getnext", "getbulk"} /\ names # <<>>
                        THEN (IF e.itstart # <<>> THEN [start |-> e.itstart, last |-> names[1]]
                              ELSE [start |-> names[1], last |-> names[1]])
                        ELSE @,
               !.gap = 0,
               !.recent = IF HasPriv(s) THEN LastN(@ \o <<e.wire>> \o DecryptOutputs(e.interp), 6) ELSE @,
               !.salts = IF HasPriv(s) THEN @ \cup {d.m.usm.priv} ELSE @,
               !.lastSalt = IF HasPriv(s) THEN d.m.usm.priv ELSE @]

(* C17: the largest size the request of call e can have (request-id / msgID take at most 4 content octets).
   A request is refused for lack of room only if it really cannot fit the message buffer of maxbuf octets.
   With privacy the scoped PDU is first serialised, behind one block of padding, into a private buffer of the
   same capacity, and padded to a whole number of blocks. *)
MaxIdSize == 6
PadUp(n, blk) == IF n % blk = 0 THEN n ELSE (n + blk) - (n % blk)
ReqNames(s, e) == IF e.walk THEN <<s.it.last>> ELSE IF e.names # <<>> THEN e.names ELSE [i \in 1..Len(e.oids) |-> OidFromText(e.oids[i]).content]
MaxPduSize(s, e) ==
  SizePdu([i \in 1..Len(ReqNames(s, e)) |-> Len(ReqNames(s, e)[i])],
          <<MaxIdSize, 3, IF e.op = "getbulk" THEN SizeInt(e.maxrep) ELSE 3>>)
MaxReqSize(s, e) ==
  IF s.ver # "v3" THEN SizeCommunityMsg(Len(s.community), MaxPduSize(s, e))
  ELSE LET sc == SizeScoped(Len(s.engine), MaxPduSize(s, e))
           data == IF HasPriv(s) THEN SizeTLV(PadUp(sc, Block(s))) ELSE sc
           usm == SizeUsm(Len(s.engine), s.boots, s.time, Len(s.user), IF HasAuth(s) THEN 12 ELSE 0, IF HasPriv(s) THEN 8 ELSE 0)
       IN SizeV3Msg(MaxIdSize, 4, usm, data)
PrivBufNeed(s, e) == IF HasPriv(s) THEN Block(s) + SizeScoped(Len(s.engine), MaxPduSize(s, e)) ELSE 0
DoesNotFit(s, e) == MaxReqSize(s, e) > s.maxbuf \/ PrivBufNeed(s, e) > s.maxbuf

(* a refusal (exception, nothing sent) must be justified *)
RefusalOK(s, e) ==
  /\ e.nwire = 0                                                    \* C08 / C17: nothing is sent
  /\ \/ /\ \E i \in 1..Len(e.oids) : OidFromText(e.oids[i]).c # Accept       \* C08: invalid OID text
        /\ e.exc = "ValueError" \/ ExcIn("SnmpError", e.exc, e.bases)
     \/ /\ e.exc = "SnmpEncodeError"                                    \* C17: it really does not fit
        /\ \A i \in 1..Len(e.oids) : OidFromText(e.oids[i]).c # Reject
        /\ DoesNotFit(s, e)
     \/ /\ "peergone" \in DOMAIN e /\ e.peergone                          \* the operating system refused the send() (the driver had
        /\ \/ e.exc \in {"OSError", "ConnectionRefusedError", "TimeoutError", "BlockingIOError"}   \* closed the peer's port: ECONNREFUSED)
           \/ \E i \in 1..Len(e.bases) : e.bases[i] = "OSError"             \* - reported as an error, never as a request that left

TSend ==
  /\ IsEvent("Send")
  /\ LET e == Rec[l]  s == S[e.sid] IN
     IF s.tainted THEN UNCHANGED <<S, fails>>
     ELSE IF e.exc # ""
       THEN Judge(e.sid, RefusalOK(s, e), [s EXCEPT !.gap = IF @ < 50 THEN @ + 1 ELSE @])
       ELSE Judge(e.sid,
                  /\ e.nwire = 1
                  /\ \A i \in 1..Len(e.oids) : OidFromText(e.oids[i]).c # Reject     \* C08: invalid text is never sent
                  /\ e.walk => (s.walk.active /\ s.walk.wbuf = <<>> /\ ~s.walk.wstop)   \* C06: no request after the end
                  /\ WireOK(s, e),
                  AfterSend(s, e))

TInject ==
  /\ IsEvent("Inject") /\ UNCHANGED fails
  /\ LET e == Rec[l] IN
     S' = [S EXCEPT ![e.sid] = [@ EXCEPT !.inbox = Append(@, [b |-> e.dgram, interp |-> e.interp]),
                                         !.recent = IF HasPriv(S[e.sid]) THEN LastN(@ \o <<e.dgram>> \o DecryptOutputs(e.interp), 6) ELSE @]]

-----------------------------------------------------------------------------
(* Abstraction of a decoded datagram to the alphabet of Session.tla, relative to session s *)
SameNum(a, b) == a = b

AbsOf(s, item) ==
  LET b == item.b  interp == item.interp
      d == Decode(s.ver, b) IN
  IF d.c = Reject THEN [kind |-> "garbage"]
  ELSE IF d.c > NonMin THEN [kind |-> "unjudged"]          \* (a receiver takes non-minimal long-form lengths like minimal ones)
  ELSE IF s.ver # "v3" THEN
    LET pdu == d.m.pdu IN
    [kind |-> "msg", verOk |-> TRUE, credOk |-> d.m.community = s.community, engineOk |-> TRUE,
     msgIdOf |-> 0, reqIdOf |-> IF pdu.reqid = s.reqid THEN 1 ELSE 99,
     pdu |-> IF pdu.ptype = PduResponse THEN "response" ELSE IF pdu.ptype = PduReport THEN "report" ELSE "request",
     mac |-> "absent", flagAuth |-> FALSE, enc |-> "plain", answers |-> 1, boots |-> 0, cpdu |-> pdu]
  ELSE
    LET m == d.m
        plain == IF m.enc /\ HasPriv(s) THEN PlainOf(s, m, interp) ELSE Missing
        sp == IF ~m.enc THEN [c |-> Accept, scoped |-> m.scoped]
              ELSE IF plain = Missing THEN Rej("undecryptable") ELSE DecodePlain(plain)
        encKind == IF ~m.enc THEN "plain" ELSE IF sp.c <= NonMin THEN "ok" ELSE IF sp.c = Reject THEN "bad" ELSE "unjudged"
        pdu == IF sp.c <= NonMin THEN sp.scoped.pdu ELSE [ptype |-> -1, reqid |-> Zero, vbs |-> <<>>]
        macv == IF m.usm.auth = <<>> THEN "absent"
                ELSE IF HasAuth(s) /\ Len(m.usm.auth) = 12
                        /\ m.usm.auth = IHmac(interp, s.auth, AuthKey(s, interp, IF s.engine = <<>> THEN m.usm.engine ELSE s.engine), ZeroAuth(b, m.usm))
                  THEN "valid" ELSE "wrong"
    IN
    IF encKind = "unjudged" THEN [kind |-> "unjudged"]
    ELSE [kind |-> "msg", verOk |-> TRUE, credOk |-> m.usm.user = s.user,
          engineOk |-> m.usm.engine = s.engine,
          msgIdOf |-> IF m.hdr.msgId = s.msgid THEN 1 ELSE 99,
          reqIdOf |-> IF pdu.reqid = s.reqid THEN 1 ELSE 99,
          pdu |-> IF pdu.ptype = PduResponse THEN "response" ELSE IF pdu.ptype = PduReport THEN "report" ELSE "request",
          mac |-> macv, flagAuth |-> m.hdr.fAuth, enc |-> encKind, answers |-> 1, boots |-> 0,
          cpdu |-> pdu, usm |-> m.usm]

AbsSess(s) == [reqId |-> 1, msgId |-> 1, engineKnown |-> s.engine # <<>>, boots |-> 0]

(* The receive loop as the composition of Session!RecvOne steps over the queued datagrams.  The result is a
   SET of acceptable outcomes: a singleton except where the properties leave a choice (a Report PDU carrying
   the current request-id inside a community-based message: C04 allows delivering it - as an error - and
   allows skipping it; Report PDUs belong to SNMPv3). *)
RECURSIVE Scan(_, _)
Scan(s, inbox) ==
  IF inbox = <<>> THEN {[o |-> "wouldblock", rest |-> <<>>]}
  ELSE LET a == AbsOf(s, inbox[1]) IN
       IF a.kind = "unjudged" THEN {[o |-> "unjudged", rest |-> Tail(inbox)]}
       ELSE LET o == SessOps!OutcomeP(FALSE, s.ver, HasAuth(s), HasPriv(s), AbsSess(s), a) IN
            IF o = "skip" THEN Scan(s, Tail(inbox))
            ELSE IF o = "deliver" /\ s.ver # "v3" /\ a.pdu = "report"
              THEN {[o |-> o, rest |-> Tail(inbox), a |-> a]} \cup Scan(s, Tail(inbox))
            ELSE {[o |-> o, rest |-> Tail(inbox), a |-> a]}

(* expected result of delivering pdu for operation op *)
Expected(s, pdu) ==
  IF s.op = "get" THEN GetResult(pdu)
  ELSE IF s.op = "get_many" THEN GetManyResult(pdu)
  ELSE IF s.op = "getnext" THEN GetNextResult(pdu, s.it)
  ELSE IF s.op = "getbulk" THEN GetBulkResult(pdu, s.it)
  ELSE IF pdu.ptype = PduReport \/ pdu.ptype = PduResponse THEN [k |-> "none"]    \* refresh: C13 probe
  ELSE [k |-> "none"]

NoExc(e) == e.exc = ""
ListPairs(py) == IF py.t = "list" THEN SelectSeq(py.v, LAMBDA x : x.t # "none") ELSE <<>>

ResultMatches(x, e) ==
  IF x.k = "none" THEN NoExc(e) /\ e.res = PyNone
  ELSE IF x.k = "value" THEN NoExc(e) /\ PyMatches(x.val, e.res, e.interp)
  ELSE IF x.k = "dict" THEN NoExc(e) /\ DictMatches(x.pdu, e.res, e.interp)
  ELSE IF x.k = "exc" THEN ExcIn(x.cls, e.exc, e.bases)
  ELSE IF x.k = "yield" THEN NoExc(e) /\ PairMatches(x.vb, e.res, e.interp)
  ELSE IF x.k = "yield-or-stop" THEN (NoExc(e) /\ PairMatches(x.vb, e.res, e.interp)) \/ ExcIn("Stop", e.exc, e.bases)
  ELSE IF x.k = "bulk" THEN
    IF x.yield = <<>> THEN ExcIn("Stop", e.exc, e.bases) \/ (NoExc(e) /\ e.res.t = "list" /\ ListPairs(e.res) = <<>>)
    ELSE /\ NoExc(e) /\ e.res.t = "list"
         /\ LET ps == ListPairs(e.res) IN
            /\ Len(ps) = Len(x.yield)
            /\ \A i \in 1..Len(ps) : PairMatches(x.yield[i], ps[i], e.interp)
  ELSE FALSE

(* does the recorded call e realise outcome r ? *)
Realises(s, r, e) ==
  IF r.o = "wouldblock" THEN e.exc \in {"BlockingIOError", "TimeoutError"}     \* C04 / C18: keeps waiting, then times out
  ELSE IF r.o = "raise" THEN e.exc = "SnmpDecodeError"                         \* C04: undecodable ends the call
  ELSE IF r.o = "deliver" THEN ResultMatches(Expected(s, r.a.cpdu), e)          \* C02 / C05 / C06 / C07
  ELSE FALSE

(* iterator and walk state after a delivered reply; e is the recorded call (it resolves the one choice the
   properties leave open: yield-or-stop when the first reply names the base itself) *)
WalkAfter(s, x, e) ==
  IF ~s.walk.active THEN s.walk
  ELSE IF x.k = "yield" \/ (x.k = "yield-or-stop" /\ NoExc(e)) THEN [s.walk EXCEPT !.wbuf = <<x.vb>>]
  ELSE IF x.k = "bulk" THEN [s.walk EXCEPT !.wbuf = x.yield, !.wstop = x.stop]
  ELSE [s.walk EXCEPT !.wstop = TRUE, !.werr = (x.k = "exc" /\ x.cls # "Stop")]
ItAfter(s, x, e) ==
  IF x.k = "yield" \/ (x.k = "yield-or-stop" /\ NoExc(e)) THEN [s.it EXCEPT !.last = x.vb.name]
  ELSE IF x.k = "bulk" THEN [s.it EXCEPT !.last = x.last]
  ELSE s.it

AfterRecv(s, r, e) ==
  IF r.o = "wouldblock" THEN [s EXCEPT !.inbox = <<>>, !.pending = FALSE, !.walk = [@ EXCEPT !.wstop = TRUE, !.werr = TRUE]]
  ELSE IF r.o = "raise" THEN [s EXCEPT !.inbox = r.rest, !.pending = FALSE, !.walk = [@ EXCEPT !.wstop = TRUE, !.werr = TRUE]]
  ELSE LET x == Expected(s, r.a.cpdu) IN
       [s EXCEPT !.inbox = r.rest, !.pending = FALSE,
                 !.it = ItAfter(s, x, e), !.walk = WalkAfter(s, x, e),
                 !.synced = IF s.op = "refresh" THEN TRUE ELSE @,
                 \* C13: adopt boots/time on every accepted message, engine id once
                 !.boots = IF s.ver = "v3" THEN r.a.usm.boots ELSE @,
                 !.time = IF s.ver = "v3" THEN r.a.usm.time ELSE @,
                 !.engine = IF s.ver = "v3" /\ @ = <<>> THEN r.a.usm.engine ELSE @]

TRecv ==
  /\ IsEvent("Recv")
  /\ LET e == Rec[l]  s == S[e.sid] IN
     IF s.tainted \/ ~s.pending THEN UNCHANGED <<S, fails>>
     ELSE LET rs == Scan(s, s.inbox) IN
       IF \E r \in rs : r.o = "unjudged"
         THEN S' = [S EXCEPT ![e.sid] = [@ EXCEPT !.tainted = TRUE]] /\ UNCHANGED fails
       ELSE LET good == {r \in rs : Realises(s, r, e)} IN
            Judge(e.sid, good # {}, IF good # {} THEN AfterRecv(s, CHOOSE r \in good : TRUE, e) ELSE s)

TNext == /\ (TOpen \/ TClose \/ TSetKeys \/ TSend \/ TInject \/ TRecv \/ TWalkStart \/ TYield \/ TWalkEnd)
         /\ (l' = Len(Rec) + 1) => PrintT(ToJson([fails |-> fails', nfails |-> Len(fails')]))
TSpec == TInit /\ [][TNext]_tvars

TraceAccepted ==
  LET n == TLCGet("stats").diameter - 1 IN
  IF n = Len(Rec) THEN PrintT(ToJson([accepted |-> n]))
  ELSE PrintT(ToJson([rejected_at |-> n + 1, event |-> Rec[n + 1]])) /\ FALSE
=============================================================================
