SPECIFICATION Spec
CONSTANTS
  Threads = {1, 2, 3}
  MaxOps = 3
  DEV_NoResetOnDrop = FALSE
INVARIANTS NoSharing HeldNotIdle IdleAreClean BoundedCreation
CHECK_DEADLOCK FALSE
