----------------------------- MODULE Policer_apa -----------------------------
(***************************************************************************)
(* Typed copy of the policer step for Apalache: inductive invariant for    *)
(* SYMBOLIC interval D and UNBOUNDED integer call times (absolute time).   *)
(*   apalache-mc check --cinit=ConstInit --init=Init    --inv=IndInv --length=0                *)
(*   apalache-mc check --cinit=ConstInit --init=IndInit --inv=IndInv --length=1                *)
(* From IndInv:  prev_{i+k} >= prev_i + k*D  and  prev <= rel < prev + D, hence           *)
(*   rel_{i+k} >= prev_{i+k} >= prev_i + k*D > rel_i - D + k*D = rel_i + (k-1)*D  (C19). *)
(***************************************************************************)
EXTENDS Integers

CONSTANT
  \* @type: Int;
  D

VARIABLES
  \* @type: Int;
  prev,
  \* @type: Int;
  rel,
  \* @type: Int;
  lastPrev,
  \* @type: Int;
  lastRel,
  \* @type: Int;
  delay

ConstInit == D \in 1..1000000000

\* state right after the first call at time 0 (policer.py:107-110)
Init == prev = 0 /\ rel = 0 /\ lastPrev = 0 - D /\ lastRel = 0 /\ delay = 0

IndInv == /\ D >= 1
          /\ prev <= rel /\ rel < prev + D
          /\ prev >= lastPrev + D
          /\ rel >= lastRel
          /\ delay >= 0 /\ delay <= D

IndInit == /\ prev \in Int /\ rel \in Int /\ lastPrev \in Int /\ lastRel \in Int /\ delay \in Int
           /\ IndInv

Next ==
  \E ts \in Int :
    /\ ts >= rel                       \* hypothesis: asked for after the previous release
    /\ LET elapsed == ts - prev IN
       /\ lastPrev' = prev /\ lastRel' = rel
       /\ IF elapsed < D
            THEN /\ prev' = prev + D /\ delay' = D - elapsed /\ rel' = ts + (D - elapsed)
            ELSE /\ prev' = prev + D * (elapsed \div D) /\ delay' = 0 /\ rel' = ts
=============================================================================
