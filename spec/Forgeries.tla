------------------------------ MODULE Forgeries ------------------------------
(***************************************************************************)
(* C10: the complete matrix of otherwise-matching v3 replies (correct      *)
(* user, engine id, msgID, request-id) that differ in how they are         *)
(* secured, with the verdict the property requires (Session!AuthenticP):   *)
(*   deliver  - may be handed to the caller                                *)
(*   drop     - must be skipped (the call keeps waiting)                   *)
(***************************************************************************)
EXTENDS Naturals, Sequences, TLC, Json

CONSTANTS HasAuth, HasPriv
S == INSTANCE Session WITH Ver <- "v3", HasAuth <- HasAuth, HasPriv <- HasPriv, MaxReq <- 1, MaxInbox <- 1, MaxInject <- 1,
        DEV_NoIncomingMacCheck <- FALSE, WithSecMutants <- TRUE,
        sess <- 0, pending <- FALSE, inbox <- <<>>, result <- 0, nsent <- 0, ninj <- 0, hist <- <<>>

Macs == {"valid", "zero", "random", "flipped", "absent"}
Encs == {"ok", "plain", "bad"}
Bodies == {"response", "report"}
Matrix == { [mac |-> m, flagAuth |-> fa, enc |-> e, pdu |-> b] :
              m \in Macs, fa \in BOOLEAN, e \in Encs, b \in Bodies }
AsDgram(x) == [S!Base(1) EXCEPT !.mac = x.mac, !.flagAuth = x.flagAuth, !.enc = x.enc, !.pdu = x.pdu]
Verdict(x) ==
  LET s == [reqId |-> 1, msgId |-> 1, engineKnown |-> TRUE, boots |-> 0]
      o == S!OutcomeP(FALSE, "v3", HasAuth, HasPriv, s, AsDgram(x)) IN
  IF o = "deliver" THEN "deliver" ELSE "drop"
ASSUME \A x \in Matrix : PrintT(ToJson([forgery |-> x, verdict |-> Verdict(x)]))
(* Near-miss MACs: the correct HMAC-96 with a small structured difference.  A comparison that looks at part of   *)
(* the field, or folds the octet differences with an operator under which they can cancel (xor, sum), or compares  *)
(* a permutation of the field, accepts some of these although each of them is simply "not the MAC":               *)
(*   bits(i)      one bit of octet i flipped, for every octet                                                      *)
(*   pair(i, j)   the same bit flipped in octets i and j (differences cancel under xor, also across 32-bit words)   *)
(*   sum(i, j)    octet i incremented, octet j decremented (differences cancel under addition)                     *)
(*   tri(i,j,k)   masks 1, 2, 3 xored into three octets of different words                                        *)
(*   rot(k)       the MAC rotated by k octets; rev: reversed                                                       *)
(*   head(k)      only the first k octets correct, the rest zero; tail(k): only the last k correct                 *)
(*   short(k)     a msgAuthenticationParameters field of k < 12 octets; long(k): of k > 12 octets                  *)
NearMacs ==      { [kind |-> "bits", i |-> i, j |-> 0, k |-> 0] : i \in 0..11 }
            \cup { [kind |-> "pair", i |-> i, j |-> j, k |-> 0] : i \in 0..11, j \in 0..11 }
            \cup { [kind |-> "sum", i |-> i, j |-> j, k |-> 0] : i \in 0..11, j \in 0..11 }
            \cup { [kind |-> "tri", i |-> i, j |-> 4 + i, k |-> 8 + i] : i \in 0..3 }
            \cup { [kind |-> "rot", i |-> 0, j |-> 0, k |-> k] : k \in 1..11 }
            \cup { [kind |-> "rev", i |-> 0, j |-> 0, k |-> 0] }
            \cup { [kind |-> "head", i |-> 0, j |-> 0, k |-> k] : k \in 1..11 }
            \cup { [kind |-> "tail", i |-> 0, j |-> 0, k |-> k] : k \in 1..11 }
            \cup { [kind |-> "short", i |-> 0, j |-> 0, k |-> k] : k \in 1..11 }      \* a field of k < 12 octets holding the first k octets of the MAC
                                                                                      \* (of the message as sent, its field zeroed)
            \cup { [kind |-> "long", i |-> 0, j |-> 0, k |-> k] : k \in {13, 16, 20} }  \* the 12 correct octets followed by more
NearKept == { x \in NearMacs : x.kind \in {"pair", "sum"} => x.i < x.j }
ASSUME \A x \in NearKept : PrintT(ToJson([nearmac |-> x, verdict |-> IF HasAuth THEN "drop" ELSE "deliver"]))
(* design-level statement of C10 over the whole matrix *)
ASSUME \A x \in Matrix :
         (HasAuth /\ x.pdu = "response" /\ Verdict(x) = "deliver") =>
             (x.flagAuth /\ x.mac = "valid" /\ (HasPriv => x.enc = "ok"))
=============================================================================
