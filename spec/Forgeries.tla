------------------------------ MODULE Forgeries ------------------------------
(***************************************************************************)
(* C10: the complete matrix of otherwise-matching v3 replies (correct      *)
(* user, engine id, msgID, request-id) that differ in how they are         *)
(* secured, with the verdict the property requires (Session!AuthenticP):   *)
(*   deliver  - may be handed to the caller                                *)
(*   drop     - must be skipped (the call keeps waiting)                   *)
(***************************************************************************)
EXTENDS Naturals, Sequences, TLC, Json

CONSTANTS HasAuth, HasPriv
S == INSTANCE Session WITH Ver <- "v3", HasAuth <- HasAuth, HasPriv <- HasPriv, MaxReq <- 1, MaxInbox <- 1, MaxInject <- 1,
        DEV_NoIncomingMacCheck <- FALSE, WithSecMutants <- TRUE,
        sess <- 0, pending <- FALSE, inbox <- <<>>, result <- 0, nsent <- 0, ninj <- 0, hist <- <<>>

Macs == {"valid", "zero", "random", "flipped", "absent"}
Encs == {"ok", "plain", "bad"}
Bodies == {"response", "report"}
Matrix == { [mac |-> m, flagAuth |-> fa, enc |-> e, pdu |-> b] :
              m \in Macs, fa \in BOOLEAN, e \in Encs, b \in Bodies }
AsDgram(x) == [S!Base(1) EXCEPT !.mac = x.mac, !.flagAuth = x.flagAuth, !.enc = x.enc, !.pdu = x.pdu]
Verdict(x) ==
  LET s == [reqId |-> 1, msgId |-> 1, engineKnown |-> TRUE, boots |-> 0]
      o == S!OutcomeP(FALSE, "v3", HasAuth, HasPriv, s, AsDgram(x)) IN
  IF o = "deliver" THEN "deliver" ELSE "drop"
ASSUME \A x \in Matrix : PrintT(ToJson([forgery |-> x, verdict |-> Verdict(x)]))
(* design-level statement of C10 over the whole matrix *)
ASSUME \A x \in Matrix :
         (HasAuth /\ x.pdu = "response" /\ Verdict(x) = "deliver") =>
             (x.flagAuth /\ x.mac = "valid" /\ (HasPriv => x.enc = "ok"))
=============================================================================
