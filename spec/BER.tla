-------------------------------- MODULE BER --------------------------------
(***************************************************************************)
(* X.690 BER as profiled by SNMP (RFC 3417 sec. 8: definite lengths only), *)
(* as TOTAL operators over octet sequences.  Every decoder returns a       *)
(* verdict class besides the value:                                        *)
(*   Accept  - well-formed; an implementation must produce exactly `v`     *)
(*   Lenient - deviates from the strict profile in a way no listed         *)
(*             property forbids tolerating (non-minimal length / integer   *)
(*             octets, zero-length INTEGER, ...): an implementation may    *)
(*             reject it, or accept it with exactly the reading `v`        *)
(*   Free    - outside the value oracle (extensions, out-of-range arcs):   *)
(*             only totality (C01) is required                             *)
(*   Reject  - a listed property demands rejection (C04 / C16)             *)
(* Classes combine by maximum.                                             *)
(***************************************************************************)
EXTENDS Octets, TLC

Accept == 0
NonMin == 1       \* BER-valid but not minimal (a long-form length with redundant leading octets): a receiver must take it
                  \* (X.690 8.1.3.5 note 2), a sender bound to the minimal form (C03 / C15) must not produce it
Lenient == 2
Free == 3
Reject == 4
MaxC(a, b) == IF a >= b THEN a ELSE b

CUniversal == 0
CApplication == 1
CContext == 2
CPrivate == 3

Fail(why) == [ok |-> FALSE, why |-> why]

(***************************************************************************)
(* TLV header at position p of b; the whole element must lie inside p..e.  *)
(* Written as the position machine of src/ber/header.rs so that every way  *)
(* of running off the input is a distinct outcome:                         *)
(*   "short"      no identifier / length octet inside the enclosing extent *)
(*   "longtag"    long-form tag number (never used by SNMP)                *)
(*   "indefinite" length octet 0x80                                        *)
(*   "lenshort"   long-form length octets run off the extent               *)
(*   "toolong"    declared length >= 65536 (cannot fit a datagram)         *)
(*   "overrun"    declared content runs past the enclosing extent (C16)    *)
(***************************************************************************)
TLVAt(b, p, e) ==
  IF p > e THEN Fail("short")
  ELSE LET id == b[p]
           cls == id \div 64
           cons == (id \div 32) % 2 = 1
           tn == id % 32
       IN
       IF tn = 31 THEN Fail("longtag")
       ELSE IF p + 1 > e THEN Fail("short")
       ELSE LET l1 == b[p + 1] IN
            IF l1 < 128
              THEN (IF p + 1 + l1 > e THEN Fail("overrun")
                    ELSE [ok |-> TRUE, cls |-> cls, cons |-> cons, tag |-> tn,
                          cs |-> p + 2, cl |-> l1, nx |-> p + 2 + l1, min |-> TRUE, k |-> 0])
            ELSE IF l1 = 128 THEN Fail("indefinite")
            ELSE LET k == l1 - 128 IN
                 IF p + 1 + k > e THEN Fail("lenshort")
                 ELSE LET lo == StripLZ(SubSeq(b, p + 2, p + 1 + k)) IN
                      IF Len(lo) > 2 THEN Fail("toolong")
                      ELSE LET n == Small(lo) IN
                           IF p + 1 + k + n > e THEN Fail("overrun")
                           ELSE [ok |-> TRUE, cls |-> cls, cons |-> cons, tag |-> tn,
                                 cs |-> p + 2 + k, cl |-> n, nx |-> p + 2 + k + n,
                                 min |-> (Len(lo) = k /\ n >= 128), k |-> k]

Content(b, h) == SubSeq(b, h.cs, h.cs + h.cl - 1)
IsTag(h, cls, cons, tag) == h.ok /\ h.cls = cls /\ h.cons = cons /\ h.tag = tag
(* up to four length octets is what every BER decoder takes; beyond that a decoder may cap the length of the length *)
LenClass(h) == IF h.min THEN Accept ELSE IF h.k <= 4 THEN NonMin ELSE Lenient

(* minimal definite length octets *)
EncLen(n) == IF n < 128 THEN <<n>>
             ELSE IF n < 256 THEN <<129, n>>
             ELSE <<130, n \div 256, n % 256>>
MkTLV(idoctet, content) == <<idoctet>> \o EncLen(Len(content)) \o content
LenOfLen(n) == IF n < 128 THEN 1 ELSE IF n < 256 THEN 2 ELSE 3
SizeTLV(contentLen) == 1 + LenOfLen(contentLen) + contentLen

(***************************************************************************)
(* INTEGER                                                                 *)
(***************************************************************************)
MaxI64 == <<127, 255, 255, 255, 255, 255, 255, 255>>
MinI64Mag == <<128, 0, 0, 0, 0, 0, 0, 0>>
FitsI64(v) == IF v.neg THEN Cmp(v.mag, MinI64Mag) <= 0 ELSE Cmp(v.mag, MaxI64) <= 0

(* returns [c |-> class, v |-> signed] *)
IntOf(content) ==
  LET v == SignedOf(content) IN
  [c |-> IF content = <<>> THEN Lenient                   \* zero-length INTEGER read as 0
         ELSE IF ~FitsI64(v) THEN Free
         ELSE IF SignedMinimal(content) THEN Accept ELSE Lenient,
   v |-> v]

(* unsigned application types; maxOctets = 4 (Counter32/Gauge32/TimeTicks/UInteger32) or 8 (Counter64) *)
UnsignedOf(content, maxOctets) ==
  LET m == StripLZ(content) IN
  [c |-> IF content = <<>> THEN Lenient
         ELSE IF Len(m) > maxOctets THEN Free
         ELSE IF content[1] >= 128 THEN Lenient            \* sent without the leading zero octet
         ELSE IF SignedMinimal(content) THEN Accept ELSE Lenient,
   v |-> [neg |-> FALSE, mag |-> m]]

(***************************************************************************)
(* OBJECT IDENTIFIER                                                       *)
(***************************************************************************)
(* split content octets into sub-identifiers, each a sequence of 7-bit digits (big-endian) *)
RECURSIVE SubIds(_, _, _, _)
SubIds(c, i, cur, acc) ==
  IF i > Len(c) THEN [ok |-> cur = <<>>, subs |-> acc]
  ELSE IF c[i] >= 128 THEN SubIds(c, i + 1, Append(cur, c[i] - 128), acc)
  ELSE SubIds(c, i + 1, <<>>, Append(acc, Append(cur, c[i])))

SubMinimal(d) == Len(d) = 1 \/ d[1] # 0            \* no leading 0x80 octet
MaxU32 == <<255, 255, 255, 255>>
SubFitsU32(d) == Cmp(Conv(d, 128, 256), MaxU32) <= 0

(* dotted-decimal text (char codes) denoted by OID content octets *)
OidText(content) ==
  IF content = <<>> THEN [c |-> Reject, text |-> <<>>]
  ELSE LET s == SubIds(content, 1, <<>>, <<>>) IN
       IF ~s.ok THEN [c |-> Free, text |-> <<>>]                     \* unterminated last sub-identifier
       ELSE LET first == s.subs[1] IN
            IF Len(first) > 1 \/ first[1] >= 120 THEN [c |-> Free, text |-> <<>>]   \* outside C02's quantifier
            ELSE LET x == first[1] \div 40
                     y == first[1] % 40
                     rest == [i \in 1..(Len(s.subs) - 1) |-> DecText(s.subs[i + 1], 128)]
                     cls == IF \E i \in 1..Len(s.subs) : ~SubFitsU32(s.subs[i]) THEN Free
                            ELSE IF \A i \in 1..Len(s.subs) : SubMinimal(s.subs[i]) THEN Accept ELSE Lenient
                 IN [c |-> cls,
                     text |-> Join(<<DecText(<<x>>, 256), DecText(<<y>>, 256)>> \o rest, 46)]

(* text -> OID.  Tokens are split on '.'.  *)
RECURSIVE SplitDots(_, _, _, _)
SplitDots(s, i, cur, acc) ==
  IF i > Len(s) THEN Append(acc, cur)
  ELSE IF s[i] = 46 THEN SplitDots(s, i + 1, <<>>, Append(acc, cur))
  ELSE SplitDots(s, i + 1, Append(cur, s[i]), acc)

IsDigits(t) == t # <<>> /\ \A i \in 1..Len(t) : t[i] >= 48 /\ t[i] <= 57
DigitsOf(t) == [i \in 1..Len(t) |-> t[i] - 48]
U32Dec == <<4, 2, 9, 4, 9, 6, 7, 2, 9, 5>>
(* decimal digit string (no sign) denotes a value <= 2^32-1 *)
DecFitsU32(t) == LET d == StripLZ(DigitsOf(t)) IN Cmp(d, U32Dec) <= 0
(* base-128 big-endian digits of a decimal token; at least one digit *)
SubOfDec(t) == LET d == Conv(StripLZ(DigitsOf(t)), 10, 128) IN IF d = <<>> THEN <<0>> ELSE d
SubEnc(d) == [i \in 1..Len(d) |-> IF i < Len(d) THEN d[i] + 128 ELSE d[i]]
SmallDec(t) == LET d == StripLZ(DigitsOf(t)) IN          \* value of a token known to be < 1000
               IF d = <<>> THEN 0 ELSE IF Len(d) = 1 THEN d[1] ELSE IF Len(d) = 2 THEN d[1] * 10 + d[2]
               ELSE d[1] * 100 + d[2] * 10 + d[3]

(***************************************************************************)
(* OidFromText(chars): what C08 allows for a caller-supplied string.       *)
(*  c = Accept : must be sent, as exactly `content`                        *)
(*  c = Lenient: may be refused, or sent as exactly `content`              *)
(*               (statement silent: leading '+', leading zeros, or a       *)
(*                second arc >= 40 under first arc 2, legal in X.690)      *)
(*  c = Reject : must be refused before anything is sent                   *)
(***************************************************************************)
StripPlus(t) == IF t # <<>> /\ t[1] = 43 THEN Tail(t) ELSE t
OidFromText(chars) ==
  LET toks == SplitDots(chars, 1, <<>>, <<>>)
      plain == \A i \in 1..Len(toks) : IsDigits(toks[i])
      plus == \A i \in 1..Len(toks) : IsDigits(StripPlus(toks[i]))
      norm == [i \in 1..Len(toks) |-> StripPlus(toks[i])]
  IN
  IF ~plus \/ Len(toks) < 2 THEN [c |-> Reject, content |-> <<>>]
  ELSE IF \E i \in 1..Len(norm) : ~DecFitsU32(norm[i]) THEN [c |-> Reject, content |-> <<>>]
  ELSE LET f == norm[1]  s == norm[2]
           fsmall == Len(StripLZ(DigitsOf(f))) <= 1
           ssmall == Len(StripLZ(DigitsOf(s))) <= 2
       IN
       IF ~fsmall \/ SmallDec(f) > 2 THEN [c |-> Reject, content |-> <<>>]
       ELSE LET x == SmallDec(f) IN
            IF x < 2 /\ (~ssmall \/ SmallDec(s) > 39) THEN [c |-> Reject, content |-> <<>>]
            ELSE LET canon == plain /\ \A i \in 1..Len(toks) : (Len(toks[i]) = 1 \/ toks[i][1] # 48)
                     big2 == x = 2 /\ (~ssmall \/ SmallDec(s) > 39)
                     \* first sub-identifier 40*x + y, possibly multi-octet when x = 2
                     firstSub == IF big2
                                   THEN Conv(Reverse(MulAddLE(Reverse(StripLZ(DigitsOf(s))), 10, 1, 80)), 10, 128)
                                   ELSE <<40 * x + SmallDec(s)>>
                     rest == [i \in 1..(Len(norm) - 2) |-> SubEnc(SubOfDec(norm[i + 2]))]
                 IN [c |-> IF canon /\ ~big2 THEN Accept ELSE Lenient,
                     content |-> SubEnc(firstSub) \o Flatten(rest)]

(***************************************************************************)
(* REAL (X.690 8.5) as an uninterpreted term; the double it denotes is     *)
(* supplied by the interpretation table of the trace (Crypto!I-style).     *)
(***************************************************************************)
RealTerm(content) ==
  IF content = <<>> THEN [c |-> Accept, term |-> [k |-> "special", name |-> "pluszero"]]
  ELSE LET f == content[1]  n == Len(content) IN
  IF f >= 128 THEN                                             \* binary
    LET sign == (f \div 64) % 2
        bb == (f \div 16) % 4
        ff == (f \div 4) % 4
        ef == f % 4
        elen == IF ef < 3 THEN ef + 1 ELSE (IF n >= 2 THEN content[2] ELSE 0)
        estart == IF ef < 3 THEN 2 ELSE 3
    IN IF bb = 3 \/ elen = 0 \/ estart + elen > n + 1 \/ estart + elen > n
         THEN [c |-> Reject, term |-> [k |-> "none"]]
       ELSE [c |-> Accept,
             term |-> [k |-> "bin", sign |-> sign, base |-> IF bb = 0 THEN 2 ELSE IF bb = 1 THEN 8 ELSE 16,
                       f |-> ff, exp |-> SignedOf(SubSeq(content, estart, estart + elen - 1)),
                       man |-> StripLZ(SubSeq(content, estart + elen, n))]]
  ELSE IF f < 64 THEN                                          \* decimal, ISO 6093 NR1..NR3
    (IF f \in {1, 2, 3} /\ n >= 2
       THEN [c |-> IF \A i \in 2..n : content[i] \in ({43, 45, 46, 69, 101} \cup (48..57)) THEN Accept ELSE Lenient,   \* spaces / comma: tolerated or refused
             term |-> [k |-> "dec", nr |-> f, chars |-> SubSeq(content, 2, n)]]
       ELSE [c |-> Reject, term |-> [k |-> "none"]])
  ELSE                                                         \* special real values
    (IF f \in {64, 65, 66, 67}
       THEN [c |-> IF n = 1 THEN Accept ELSE Lenient,          \* surplus octets after a special value: tolerated or refused
             term |-> [k |-> "special",
                 name |-> IF f = 64 THEN "plusinf" ELSE IF f = 65 THEN "minusinf" ELSE IF f = 66 THEN "nan" ELSE "minuszero"]]
       ELSE [c |-> Reject, term |-> [k |-> "none"]])

(* IEEE-754 double bits of the special values *)
SpecialBits(name) ==
  IF name = "pluszero" THEN <<0, 0, 0, 0, 0, 0, 0, 0>>
  ELSE IF name = "minuszero" THEN <<128, 0, 0, 0, 0, 0, 0, 0>>
  ELSE IF name = "plusinf" THEN <<127, 240, 0, 0, 0, 0, 0, 0>>
  ELSE IF name = "minusinf" THEN <<255, 240, 0, 0, 0, 0, 0, 0>>
  ELSE <<>>
IsNaNBits(bits) == /\ Len(bits) = 8 /\ bits[1] % 128 = 127 /\ bits[2] \div 16 = 15
                   /\ (bits[2] % 16 # 0 \/ \E i \in 3..8 : bits[i] # 0)

(***************************************************************************)
(* SNMP value (the value half of a varbind).  h is the header of the value *)
(* TLV.  Returns [c, vt, ...].                                             *)
(***************************************************************************)
IpText(content) == Join([i \in 1..4 |-> DecText(<<content[i]>>, 256)], 46)

ValueOf(b, h) ==
  LET c == Content(b, h)
      lc == LenClass(h)
  IN
  IF h.cons THEN [c |-> Reject, vt |-> "unsupported"]
  ELSE IF h.cls = CUniversal THEN
    (IF h.tag = 1 THEN (IF h.cl = 1 THEN [c |-> lc, vt |-> "bool", v |-> c[1] # 0] ELSE [c |-> Reject, vt |-> "bad"])
     ELSE IF h.tag = 2 THEN LET r == IntOf(c) IN [c |-> MaxC(lc, r.c), vt |-> "int", v |-> r.v]
     ELSE IF h.tag = 4 THEN [c |-> lc, vt |-> "octets", v |-> c]
     ELSE IF h.tag = 5 THEN (IF h.cl = 0 THEN [c |-> lc, vt |-> "null"] ELSE [c |-> Reject, vt |-> "bad"])
     ELSE IF h.tag = 6 THEN LET t == OidText(c) IN
          [c |-> MaxC(lc, IF t.c = Reject THEN Free ELSE t.c), vt |-> "oid", text |-> t.text, v |-> c]   \* empty OID value: only totality
     ELSE IF h.tag = 7 THEN [c |-> lc, vt |-> "objdesc", v |-> c]
     ELSE IF h.tag = 9 THEN LET r == RealTerm(c) IN [c |-> MaxC(lc, r.c), vt |-> "real", term |-> r.term]
     ELSE [c |-> Reject, vt |-> "unsupported"])
  ELSE IF h.cls = CApplication THEN
    (IF h.tag = 0 THEN (IF h.cl = 4 THEN [c |-> lc, vt |-> "ip", text |-> IpText(c)] ELSE [c |-> Reject, vt |-> "bad"])
     ELSE IF h.tag \in {1, 2, 3, 7} THEN LET r == UnsignedOf(c, 4) IN
          [c |-> MaxC(lc, r.c), vt |-> IF h.tag = 1 THEN "counter32" ELSE IF h.tag = 2 THEN "gauge32"
                                       ELSE IF h.tag = 3 THEN "timeticks" ELSE "uinteger32", v |-> r.v]
     ELSE IF h.tag = 4 THEN [c |-> lc, vt |-> "opaque", v |-> c]
     ELSE IF h.tag = 6 THEN LET r == UnsignedOf(c, 8) IN [c |-> MaxC(lc, r.c), vt |-> "counter64", v |-> r.v]
     ELSE [c |-> Reject, vt |-> "unsupported"])
  ELSE IF h.cls = CContext THEN
    (IF h.tag \in {0, 1, 2}
       THEN [c |-> MaxC(lc, IF h.cl = 0 THEN Accept ELSE Lenient),
             vt |-> IF h.tag = 0 THEN "noSuchObject" ELSE IF h.tag = 1 THEN "noSuchInstance" ELSE "endOfMibView"]
       ELSE [c |-> Reject, vt |-> "unsupported"])
  ELSE [c |-> Reject, vt |-> "unsupported"]

IsException(val) == val.vt \in {"noSuchObject", "noSuchInstance", "endOfMibView"}
IsData(val) == ~IsException(val) /\ val.vt # "null"

(***************************************************************************)
(* The documented Python value of an SNMP value (docs: int, bytes, str for *)
(* OBJECT IDENTIFIER / IpAddress, float, bool, None), in the tagged        *)
(* canonical projection used by the trace recorder.  `interp` is the       *)
(* interpretation table: REAL terms appear as [f |-> "real", term, out].   *)
(***************************************************************************)
PyInt(v) == [t |-> "int", neg |-> v.neg, mag |-> v.mag]
PyBytes(c) == [t |-> "bytes", v |-> c]
PyStr(c) == [t |-> "str", v |-> c]
PyNone == [t |-> "none"]

(* TRUE iff Python value `py` is what `val` denotes *)
PyMatches(val, py, interp) ==
  IF val.vt \in {"int", "counter32", "gauge32", "timeticks", "uinteger32", "counter64"} THEN py = PyInt(val.v)
  ELSE IF val.vt \in {"octets", "objdesc", "opaque"} THEN py = PyBytes(val.v)
  ELSE IF val.vt \in {"oid", "ip"} THEN py = PyStr(val.text)
  ELSE IF val.vt = "bool" THEN py = [t |-> "bool", v |-> val.v]
  ELSE IF val.vt = "null" THEN py = PyNone
  ELSE IF val.vt = "real" THEN
    /\ py.t = "float"
    /\ IF val.term.k = "special"
         THEN (IF val.term.name = "nan" THEN IsNaNBits(py.bits) ELSE py.bits = SpecialBits(val.term.name))
         ELSE \E i \in 1..Len(interp) : interp[i].f = "real" /\ interp[i].term = val.term /\ interp[i].out = py.bits
  ELSE FALSE
=============================================================================
