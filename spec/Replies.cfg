CONSTANTS MaxVb = 3
