-------------------------------- MODULE SNMP --------------------------------
(***************************************************************************)
(* SNMP v1 / v2c / v3 messages (RFC 1157, 3416, 3412, 3414): abstract      *)
(* syntax and a TOTAL decoder from octets.  Decode(ver, b) returns         *)
(*   [c |-> class, why |-> ..., m |-> message record]                      *)
(* with the verdict classes of BER.tla.  It is the independent decoder     *)
(* that judges what the library puts on the wire (C03, C09, C11, C14, C15, *)
(* C17) and what an agent's reply denotes (C02, C04, C07, C10, C13).       *)
(***************************************************************************)
EXTENDS BER

Rej(why) == [c |-> Reject, why |-> why]
(* an element that is refused: when its header itself could not be parsed inside the enclosing extent (it runs past it, is cut
   short, ...) the reason is the header parser's - C16 wants to know about extents - otherwise it is the element's name *)
RejT(h, name) == IF ~h.ok THEN Rej(h.why) ELSE Rej(name)

PduGet == 0
PduGetNext == 1
PduResponse == 2
PduGetBulk == 5
PduReport == 8
KnownPdu == {PduGet, PduGetNext, PduResponse, PduGetBulk, PduReport}

(* one varbind at position p inside p..e : SEQUENCE { name OBJECT IDENTIFIER, value } *)
VarBindAt(b, p, e) ==
  LET h == TLVAt(b, p, e) IN
  IF ~h.ok THEN [c |-> Reject, why |-> h.why, nx |-> e + 1]
  ELSE IF ~IsTag(h, CUniversal, TRUE, 16) THEN [c |-> Reject, why |-> "vb-not-seq", nx |-> h.nx]
  ELSE LET ve == h.cs + h.cl - 1
           hn == TLVAt(b, h.cs, ve) IN
       IF ~hn.ok THEN [c |-> Reject, why |-> hn.why, nx |-> h.nx]
       ELSE IF IsTag(hn, CUniversal, FALSE, 13) THEN [c |-> Free, why |-> "relative-oid", nx |-> h.nx]
       ELSE IF ~IsTag(hn, CUniversal, FALSE, 6) THEN [c |-> Reject, why |-> "name-not-oid", nx |-> h.nx]
       ELSE LET hv == TLVAt(b, hn.nx, ve) IN
            IF ~hv.ok THEN [c |-> Reject, why |-> hv.why, nx |-> h.nx]
            ELSE LET val == ValueOf(b, hv)
                     name == Content(b, hn)
                     nt == OidText(name)
                     trailing == IF hv.nx # ve + 1 THEN Lenient ELSE Accept
                 IN [c |-> MaxC(MaxC(MaxC(LenClass(h), LenClass(hn)), MaxC(val.c, nt.c)), trailing),
                     why |-> "", nx |-> h.nx,
                     vb |-> [name |-> name, text |-> nt.text, val |-> val]]

RECURSIVE VarBinds(_, _, _, _, _)
VarBinds(b, p, e, acc, cls) ==
  IF p > e THEN [c |-> cls, why |-> "", vbs |-> acc]
  ELSE LET r == VarBindAt(b, p, e) IN
       IF r.c >= Free THEN [c |-> r.c, why |-> r.why, vbs |-> acc]
       ELSE VarBinds(b, r.nx, e, Append(acc, r.vb), MaxC(cls, r.c))

(* is the body of a (Report) PDU a well-formed request-id / error-status / error-index / varbind-list? *)
ReportBodyOK(b, p, e) ==
  LET h1 == TLVAt(b, p, e) IN
  /\ IsTag(h1, CUniversal, FALSE, 2)
  /\ LET h2 == TLVAt(b, h1.nx, e) IN
     /\ IsTag(h2, CUniversal, FALSE, 2)
     /\ LET h3 == TLVAt(b, h2.nx, e) IN
        /\ IsTag(h3, CUniversal, FALSE, 2)
        /\ LET h4 == TLVAt(b, h3.nx, e) IN
           /\ IsTag(h4, CUniversal, TRUE, 16) /\ h4.nx = e + 1
           /\ VarBinds(b, h4.cs, h4.cs + h4.cl - 1, <<>>, Accept).c < Free

(* PDU at position p; must end exactly at e *)
PduAt(b, p, e) ==
  LET h == TLVAt(b, p, e) IN
  IF ~h.ok THEN Rej(h.why)
  ELSE IF ~(h.cls = CContext /\ h.cons) THEN Rej("pdu-tag")
  ELSE IF h.tag \notin KnownPdu THEN Rej("unknown-pdu")
  ELSE LET pe == h.cs + h.cl - 1
           h1 == TLVAt(b, h.cs, pe) IN
       IF h.tag = PduReport /\ ~ReportBodyOK(b, h.cs, pe)
         THEN [c |-> Free, why |-> "report-body"]      \* the body of a Report is not interpreted by a client: only totality
       ELSE IF ~IsTag(h1, CUniversal, FALSE, 2) THEN RejT(h1, "reqid")
       ELSE LET h2 == TLVAt(b, h1.nx, pe) IN
       IF ~IsTag(h2, CUniversal, FALSE, 2) THEN RejT(h2, "f2")
       ELSE LET h3 == TLVAt(b, h2.nx, pe) IN
       IF ~IsTag(h3, CUniversal, FALSE, 2) THEN RejT(h3, "f3")
       ELSE LET h4 == TLVAt(b, h3.nx, pe) IN
       IF ~IsTag(h4, CUniversal, TRUE, 16) THEN RejT(h4, "vbl")
       ELSE IF h4.nx # pe + 1 THEN Rej("trailing-in-pdu")
       ELSE LET i1 == IntOf(Content(b, h1))
                i2 == IntOf(Content(b, h2))
                i3 == IntOf(Content(b, h3))
                vs == VarBinds(b, h4.cs, h4.cs + h4.cl - 1, <<>>, Accept)
                cls == MaxC(MaxC(MaxC(LenClass(h), LenClass(h1)), MaxC(LenClass(h2), LenClass(h3))),
                            MaxC(MaxC(LenClass(h4), i1.c), MaxC(MaxC(i2.c, i3.c), vs.c)))
                trailingTop == IF h.nx # e + 1 THEN Lenient ELSE Accept      \* octets after the PDU but inside the enclosing SEQUENCE
                \* request PDUs conventionally bind every name to NULL; another value is tolerated or refused
                reqVals == IF h.tag \in {PduGet, PduGetNext, PduGetBulk}
                              /\ \E i \in 1..Len(vs.vbs) : vs.vbs[i].val.vt # "null" THEN Lenient ELSE Accept
            IN [c |-> MaxC(MaxC(cls, reqVals), trailingTop), why |-> vs.why,
                pdu |-> [ptype |-> h.tag, reqid |-> i1.v, f2 |-> i2.v, f3 |-> i3.v, vbs |-> vs.vbs]]

Zero == [neg |-> FALSE, mag |-> <<>>]
One == [neg |-> FALSE, mag |-> <<1>>]
Three == [neg |-> FALSE, mag |-> <<3>>]
VerNum(ver) == IF ver = "v1" THEN Zero ELSE IF ver = "v2c" THEN One ELSE Three

(* --- community-based messages -------------------------------------------------- *)
DecodeCommunity(ver, b) ==
  LET n == Len(b)
      h == TLVAt(b, 1, n) IN
  IF ~h.ok THEN Rej(h.why)
  ELSE IF ~IsTag(h, CUniversal, TRUE, 16) THEN RejT(h, "not-seq")
  ELSE IF h.nx # n + 1 THEN Rej("trailing-after-message")           \* C16
  ELSE LET e == n
           hv == TLVAt(b, h.cs, e) IN
       IF ~IsTag(hv, CUniversal, FALSE, 2) THEN RejT(hv, "version")
       ELSE LET iv == IntOf(Content(b, hv)) IN
       IF iv.c >= Free \/ iv.v # VerNum(ver) THEN Rej("other-version")  \* C04
       ELSE LET hc == TLVAt(b, hv.nx, e) IN
       IF ~IsTag(hc, CUniversal, FALSE, 4) THEN RejT(hc, "community")
       ELSE LET p == PduAt(b, hc.nx, e) IN
       IF p.c = Reject THEN Rej(p.why)
       ELSE IF p.c = Free THEN [c |-> Free, why |-> p.why]
       ELSE [c |-> MaxC(MaxC(LenClass(h), LenClass(hv)), MaxC(MaxC(iv.c, LenClass(hc)), p.c)), why |-> "",
             m |-> [ver |-> ver, community |-> Content(b, hc), pdu |-> p.pdu]]

(* --- SNMPv3 -------------------------------------------------------------------- *)
UsmAt(b, p, e) ==        \* content of msgSecurityParameters: exactly one SEQUENCE
  LET h == TLVAt(b, p, e) IN
  IF ~IsTag(h, CUniversal, TRUE, 16) THEN RejT(h, "usm-seq")
  ELSE IF h.nx # e + 1 THEN Rej("usm-trailing")
  ELSE LET h1 == TLVAt(b, h.cs, e) IN
  IF ~IsTag(h1, CUniversal, FALSE, 4) THEN RejT(h1, "usm-engine")
  ELSE LET h2 == TLVAt(b, h1.nx, e) IN
  IF ~IsTag(h2, CUniversal, FALSE, 2) THEN RejT(h2, "usm-boots")
  ELSE LET h3 == TLVAt(b, h2.nx, e) IN
  IF ~IsTag(h3, CUniversal, FALSE, 2) THEN RejT(h3, "usm-time")
  ELSE LET h4 == TLVAt(b, h3.nx, e) IN
  IF ~IsTag(h4, CUniversal, FALSE, 4) THEN RejT(h4, "usm-user")
  ELSE LET h5 == TLVAt(b, h4.nx, e) IN
  IF ~IsTag(h5, CUniversal, FALSE, 4) THEN RejT(h5, "usm-auth")
  ELSE LET h6 == TLVAt(b, h5.nx, e) IN
  IF ~IsTag(h6, CUniversal, FALSE, 4) THEN RejT(h6, "usm-priv")
  ELSE LET ib == IntOf(Content(b, h2))
           it == IntOf(Content(b, h3))
           lens == MaxC(MaxC(MaxC(LenClass(h), LenClass(h1)), MaxC(LenClass(h2), LenClass(h3))),
                        MaxC(MaxC(LenClass(h4), LenClass(h5)), LenClass(h6)))
       IN [c |-> MaxC(MaxC(lens, MaxC(ib.c, it.c)), IF h6.nx # e + 1 THEN Lenient ELSE Accept), why |-> "",
           usm |-> [engine |-> Content(b, h1), boots |-> ib.v, time |-> it.v, user |-> Content(b, h4),
                    auth |-> Content(b, h5), priv |-> Content(b, h6),
                    authPos |-> h5.cs, authLen |-> h5.cl]]          \* where the MAC sits in the datagram (C09)

(* scopedPDU ::= SEQUENCE { contextEngineID, contextName, data }, from p; must end at e *)
ScopedAt(b, p, e, exact) ==
  LET h == TLVAt(b, p, e) IN
  IF ~IsTag(h, CUniversal, TRUE, 16) THEN RejT(h, "scoped-seq")
  ELSE IF FALSE THEN Rej("x")
  ELSE LET se == h.cs + h.cl - 1
           h1 == TLVAt(b, h.cs, se) IN
  IF ~IsTag(h1, CUniversal, FALSE, 4) THEN RejT(h1, "ctx-engine")
  ELSE LET h2 == TLVAt(b, h1.nx, se) IN
  IF ~IsTag(h2, CUniversal, FALSE, 4) THEN RejT(h2, "ctx-name")
  ELSE LET p1 == PduAt(b, h2.nx, se) IN
  IF p1.c = Reject THEN Rej(p1.why)
  ELSE IF p1.c = Free THEN [c |-> Free, why |-> p1.why]
  ELSE [c |-> MaxC(MaxC(MaxC(LenClass(h), LenClass(h1)), MaxC(LenClass(h2), p1.c)), IF exact /\ h.nx # e + 1 THEN Lenient ELSE Accept), why |-> "",
        padLen |-> e + 1 - h.nx,                        \* octets after the scoped PDU (padding when decrypted)
        scoped |-> [ctxEngine |-> Content(b, h1), ctxName |-> Content(b, h2), pdu |-> p1.pdu]]

DecodeV3(b) ==
  LET n == Len(b)
      h == TLVAt(b, 1, n) IN
  IF ~h.ok THEN Rej(h.why)
  ELSE IF ~IsTag(h, CUniversal, TRUE, 16) THEN RejT(h, "not-seq")
  ELSE IF h.nx # n + 1 THEN Rej("trailing-after-message")
  ELSE LET e == n
           hv == TLVAt(b, h.cs, e) IN
  IF ~IsTag(hv, CUniversal, FALSE, 2) THEN RejT(hv, "version")
  ELSE LET iv == IntOf(Content(b, hv)) IN
  IF iv.c >= Free \/ iv.v # Three THEN Rej("other-version")
  ELSE LET hg == TLVAt(b, hv.nx, e) IN
  IF ~IsTag(hg, CUniversal, TRUE, 16) THEN RejT(hg, "global-header")
  ELSE LET ge == hg.cs + hg.cl - 1
           g1 == TLVAt(b, hg.cs, ge) IN
  IF ~IsTag(g1, CUniversal, FALSE, 2) THEN RejT(g1, "msgid")
  ELSE LET g2 == TLVAt(b, g1.nx, ge) IN
  IF ~IsTag(g2, CUniversal, FALSE, 2) THEN RejT(g2, "maxsize")
  ELSE LET g3 == TLVAt(b, g2.nx, ge) IN
  IF ~IsTag(g3, CUniversal, FALSE, 4) \/ g3.cl # 1 THEN RejT(g3, "flags")
  ELSE LET g4 == TLVAt(b, g3.nx, ge) IN
  IF ~IsTag(g4, CUniversal, FALSE, 2) THEN RejT(g4, "secmodel")
  ELSE LET sm == IntOf(Content(b, g4)) IN
  IF sm.c >= Free \/ sm.v # Three THEN Rej("unknown-security-model")
  ELSE LET hs == TLVAt(b, hg.nx, e) IN
  IF ~IsTag(hs, CUniversal, FALSE, 4) THEN RejT(hs, "secparams")
  ELSE LET u == UsmAt(b, hs.cs, hs.cs + hs.cl - 1) IN
  IF u.c = Reject THEN Rej(u.why)
  ELSE LET mid == IntOf(Content(b, g1))
           mx == IntOf(Content(b, g2))
           flags == b[g3.cs]
           hd == TLVAt(b, hs.nx, e)
           lens == MaxC(MaxC(MaxC(LenClass(h), LenClass(hv)), MaxC(LenClass(hg), LenClass(g1))),
                        MaxC(MaxC(LenClass(g2), LenClass(g3)), MaxC(LenClass(g4), LenClass(hs))))
           base == MaxC(MaxC(lens, MaxC(iv.c, sm.c)), MaxC(MaxC(mid.c, mx.c), MaxC(u.c, IF g4.nx # ge + 1 THEN Lenient ELSE Accept)))
           hdr == [msgId |-> mid.v, maxSize |-> mx.v, flags |-> flags,
                   fAuth |-> flags % 2 = 1, fPriv |-> (flags \div 2) % 2 = 1, fReport |-> (flags \div 4) % 2 = 1]
       IN
  IF ~hd.ok THEN Rej(hd.why)
  ELSE IF IsTag(hd, CUniversal, FALSE, 4)
    THEN (IF FALSE THEN Rej("x")
          ELSE [c |-> MaxC(MaxC(base, LenClass(hd)), IF hd.nx # e + 1 THEN Lenient ELSE Accept), why |-> "",   \* octets after msgData inside the message
                m |-> [ver |-> "v3", hdr |-> hdr, usm |-> u.usm, enc |-> TRUE, data |-> Content(b, hd)]])
    ELSE LET s == ScopedAt(b, hs.nx, e, TRUE) IN
         IF s.c = Reject THEN Rej(s.why)
         ELSE IF s.c = Free THEN [c |-> Free, why |-> s.why]
         ELSE [c |-> MaxC(base, s.c), why |-> "",
               m |-> [ver |-> "v3", hdr |-> hdr, usm |-> u.usm, enc |-> FALSE, scoped |-> s.scoped]]

Decode(ver, b) == IF ver = "v3" THEN DecodeV3(b) ELSE DecodeCommunity(ver, b)

(* decrypted msgData: scoped PDU followed by padding *)
DecodePlain(plain) == ScopedAt(plain, 1, Len(plain), FALSE)

(* the datagram with the 12 msgAuthenticationParameters octets zeroed (RFC 3414 6.3.1 / 7.3.1) *)
ZeroAuth(b, usm) == [i \in 1..Len(b) |-> IF i >= usm.authPos /\ i < usm.authPos + usm.authLen THEN 0 ELSE b[i]]

(***************************************************************************)
(* Size arithmetic of request messages (C17), without building octets.     *)
(***************************************************************************)
SizeInt(v) == SizeTLV(Len(SignedEnc(v)))
SizeVarBind(oidContentLen) == SizeTLV(SizeTLV(oidContentLen) + 2)
RECURSIVE SumSeq(_)
SumSeq(s) == IF s = <<>> THEN 0 ELSE s[1] + SumSeq(Tail(s))
(* oidLens: sequence of OID content lengths; intSizes: sizes of the three INTEGER TLVs *)
SizePdu(oidLens, intSizes) ==
  SizeTLV(SumSeq(intSizes) + SizeTLV(SumSeq([i \in 1..Len(oidLens) |-> SizeVarBind(oidLens[i])])))
SizeCommunityMsg(communityLen, pduSize) == SizeTLV(3 + SizeTLV(communityLen) + pduSize)
(* v3 (RFC 3412 / 3414).  idSize = size of the msgID INTEGER TLV; dataSize = size of msgData *)
SizeScoped(engineLen, pduSize) == SizeTLV(SizeTLV(engineLen) + 2 + pduSize)
SizeUsm(engineLen, boots, time, userLen, authLen, privLen) ==
  SizeTLV(SizeTLV(SizeTLV(engineLen) + SizeInt(boots) + SizeInt(time) + SizeTLV(userLen) + SizeTLV(authLen) + SizeTLV(privLen)))
SizeV3Msg(idSize, maxSizeSize, usmSize, dataSize) == SizeTLV(3 + SizeTLV(idSize + maxSizeSize + 3 + 3) + usmSize + dataSize)
=============================================================================
