------------------------------ MODULE Session ------------------------------
(***************************************************************************)
(* One client session and its environment (agent + network), at the grain  *)
(* of the implementation: one action per critical section.                 *)
(*   SendRequest  src/socket/snmpsocket.rs:153-164 (+ push_pdu)            *)
(*   RecvOne      ONE iteration of the loop in snmpsocket.rs:125-152:      *)
(*                recv -> Message::try_from -> unwrap_pdu -> deliver/skip  *)
(*   RecvWouldBlock  recv on an empty non-blocking socket / timer expiry   *)
(*   Inject(d)    the environment queues any datagram built from what it   *)
(*                has seen so far (loss = never injecting, duplication =   *)
(*                injecting twice, delay/reorder = injecting later)        *)
(* Datagrams are ABSTRACT: the matching reply to request j and every       *)
(* datagram that differs from it in one respect (curated alphabet).  The   *)
(* trace specification (TraceSession.tla) abstracts concrete octets to     *)
(* these records with SNMP!Decode and applies the SAME Outcome operator.   *)
(*                                                                         *)
(* Deviation constants reproduce the pinned implementation where reading   *)
(* shows it departs from a listed property; with the constant FALSE the    *)
(* model is the required design (this is what every check uses as oracle). *)
(***************************************************************************)
EXTENDS Naturals, Sequences, FiniteSets, TLC

CONSTANTS Ver,                      \* "v1" | "v2c" | "v3"
          HasAuth, HasPriv,         \* v3 security level of the session
          MaxReq,                   \* requests per behaviour
          MaxInbox,                 \* datagrams queued at any time
          MaxInject,                \* injections per behaviour
          DEV_NoIncomingMacCheck,   \* pinned commit: msgAuthenticationParameters / msgFlags of replies ignored
          WithSecMutants            \* include the forged-security mutants (C10) in the alphabet

NeverId == 99                       \* an id never issued by the session

(* the well-formed, matching, authentic reply to request j ... *)
Base(j) == [kind |-> "msg", verOk |-> TRUE, credOk |-> TRUE, engineOk |-> TRUE,
            msgIdOf |-> j, reqIdOf |-> j, pdu |-> "response",
            mac |-> IF Ver = "v3" /\ HasAuth THEN "valid" ELSE "absent",
            flagAuth |-> Ver = "v3" /\ HasAuth,
            enc |-> IF Ver = "v3" /\ HasPriv THEN "ok" ELSE "plain",
            answers |-> j, boots |-> j]

(* ... and every datagram that differs from it in exactly one respect *)
CommonMutants(j) ==
  { Base(j),
    [Base(j) EXCEPT !.verOk = FALSE],               \* another SNMP version: undecodable for this session
    [Base(j) EXCEPT !.credOk = FALSE],              \* community / user name rewritten
    [Base(j) EXCEPT !.reqIdOf = NeverId],           \* request-id rewritten
    [Base(j) EXCEPT !.pdu = "request"],             \* a request PDU echoed with the right id
    [Base(j) EXCEPT !.pdu = "report"],              \* a Report with the right ids
    [Base(j) EXCEPT !.pdu = "report", !.reqIdOf = NeverId] }
V3Mutants(j) ==
  { [Base(j) EXCEPT !.engineOk = FALSE],
    [Base(j) EXCEPT !.msgIdOf = NeverId],
    [Base(j) EXCEPT !.pdu = "report", !.reqIdOf = NeverId, !.mac = "absent", !.flagAuth = FALSE, !.enc = "plain"] }
AuthMutants(j) ==
  { [Base(j) EXCEPT !.mac = "zero"],
    [Base(j) EXCEPT !.mac = "random"],
    [Base(j) EXCEPT !.mac = "absent", !.flagAuth = FALSE],
    [Base(j) EXCEPT !.flagAuth = FALSE] }
PrivMutants(j) ==
  { [Base(j) EXCEPT !.enc = "bad"],                 \* encrypted under another key / not decryptable
    [Base(j) EXCEPT !.enc = "plain"] }              \* sent in clear although privacy is configured
Mutants(j) == CommonMutants(j)
              \cup (IF Ver = "v3" THEN V3Mutants(j) ELSE {})
              \cup (IF WithSecMutants /\ Ver = "v3" /\ HasAuth THEN AuthMutants(j) ELSE {})
              \cup (IF WithSecMutants /\ Ver = "v3" /\ HasPriv THEN PrivMutants(j) ELSE {})
Garbage == [kind |-> "garbage"]                     \* truncated / not BER / trailing octets
Dgram == {Garbage} \cup UNION { Mutants(j) : j \in 1..MaxReq }

VARIABLES sess,      \* [reqId, msgId, engineKnown, boots]   session's view
          pending,   \* a request is outstanding (a recv call is in progress or about to be made)
          inbox,     \* datagrams queued on the client socket (persists across calls)
          result,    \* outcome of the last completed call
          nsent, ninj,
          hist       \* behaviour so far (exported for replay; hidden from the fingerprint by View)
vars == <<sess, pending, inbox, result, nsent, ninj, hist>>
View == <<sess, pending, inbox, result, nsent, ninj>>

Init == /\ sess = [reqId |-> 0, msgId |-> 0, engineKnown |-> FALSE, boots |-> 0]
        /\ pending = FALSE /\ inbox = <<>> /\ result = [k |-> "none"] /\ nsent = 0 /\ ninj = 0
        /\ hist = <<>>

SendRequest ==
  /\ ~pending /\ nsent < MaxReq
  /\ nsent' = nsent + 1
  /\ sess' = [sess EXCEPT !.reqId = nsent + 1, !.msgId = nsent + 1]
  /\ pending' = TRUE /\ result' = [k |-> "none"] /\ UNCHANGED <<inbox, ninj>>
  /\ hist' = Append(hist, [a |-> "send"])

Inject(d) ==
  /\ Len(inbox) < MaxInbox /\ ninj < MaxInject
  /\ nsent >= 1                                        \* the client's ephemeral port is unknown before its first request
  /\ d.kind = "msg" => d.answers \in 1..nsent          \* only ids already seen on the wire
  /\ inbox' = Append(inbox, d) /\ ninj' = ninj + 1
  /\ UNCHANGED <<sess, pending, result, nsent>>
  /\ hist' = Append(hist, [a |-> "inject", d |-> d])

-----------------------------------------------------------------------------
(* The receive path as pure operators (shared with TraceSession.tla).      *)

Decodes(d) == d.kind = "msg" /\ d.verOk

(* Parametrised forms (ver, hasAuth, hasPriv are arguments) so that the trace specification can apply
   the very same operators to sessions of different configurations. *)
(* src/socket/v1.rs:133-144, v2c.rs:132-143, v3.rs:247-272 *)
MatchesP(ver, hasPriv, s, d) ==
  /\ d.credOk
  /\ ver = "v3" => /\ d.enc # "bad"                        \* undecryptable -> skipped
                   /\ (d.enc = "ok" => hasPriv)
                   /\ (s.engineKnown => d.engineOk)
                   /\ d.msgIdOf = s.msgId
  /\ (ver = "v3" /\ d.pdu = "report") \/ d.reqIdOf = s.reqId

(* C10: what is additionally required before a value-bearing reply is delivered *)
AuthenticP(dev, ver, hasAuth, hasPriv, d) ==
  \/ dev
  \/ ~(ver = "v3" /\ hasAuth)
  \/ d.pdu = "report"
  \/ (d.flagAuth /\ d.mac = "valid" /\ (hasPriv => d.enc = "ok"))

OutcomeP(dev, ver, hasAuth, hasPriv, s, d) ==
  IF ~Decodes(d) THEN "raise"
  ELSE IF ~(MatchesP(ver, hasPriv, s, d) /\ AuthenticP(dev, ver, hasAuth, hasPriv, d)) THEN "skip"
  ELSE "deliver"

Matches(s, d) == MatchesP(Ver, HasPriv, s, d)
Authentic(d) == AuthenticP(DEV_NoIncomingMacCheck, Ver, HasAuth, HasPriv, d)
Outcome(s, d) == OutcomeP(DEV_NoIncomingMacCheck, Ver, HasAuth, HasPriv, s, d)

(* what a delivered PDU turns into for the caller (src/snmp/op/*.rs) *)
Delivered(d) == IF d.pdu = "response" THEN [k |-> "value", answers |-> d.answers, mac |-> d.mac, fa |-> d.flagAuth, enc |-> d.enc]
                ELSE IF d.pdu = "report" THEN [k |-> "raise", cls |-> "SnmpAuthError"]
                ELSE [k |-> "raise", cls |-> "SnmpError"]

RecvOne ==                                  \* exactly one iteration of the loop
  /\ pending /\ inbox # <<>>
  /\ LET d == Head(inbox)
         o == Outcome(sess, d) IN
     /\ inbox' = Tail(inbox)
     /\ IF o = "raise"
          THEN /\ result' = [k |-> "raise", cls |-> "SnmpDecodeError"]
               /\ pending' = FALSE /\ UNCHANGED sess
        ELSE IF o = "skip"
          THEN UNCHANGED <<result, pending, sess>>            \* keep waiting
        ELSE /\ pending' = FALSE
             /\ sess' = [sess EXCEPT !.engineKnown = TRUE, !.boots = d.boots]
             /\ result' = Delivered(d)
     /\ hist' = Append(hist, [a |-> "recvone", o |-> o])
  /\ UNCHANGED <<nsent, ninj>>

RecvWouldBlock ==
  /\ pending /\ inbox = <<>>
  /\ pending' = FALSE /\ result' = [k |-> "raise", cls |-> "TimeoutError"]
  /\ UNCHANGED <<sess, inbox, nsent, ninj>>
  /\ hist' = Append(hist, [a |-> "wouldblock"])

Next == SendRequest \/ RecvOne \/ RecvWouldBlock \/ \E d \in Dgram : Inject(d)
Spec == Init /\ [][Next]_vars

-----------------------------------------------------------------------------
(* C04 *)
DeliverOnlyCurrent == result.k = "value" => result.answers = sess.reqId
SkipKeepsWaiting ==
  [][(pending /\ pending' /\ inbox # <<>> /\ inbox' = Tail(inbox)) => UNCHANGED <<sess, result>>]_vars
UndecodableEndsCall ==
  [][(pending /\ inbox # <<>> /\ ~Decodes(Head(inbox)) /\ inbox' = Tail(inbox))
       => (~pending' /\ result'.k = "raise" /\ result'.cls = "SnmpDecodeError")]_vars
(* a matching reply queued behind skippable datagrams is still delivered *)
LaterMatchDelivered ==
  [][(pending /\ inbox # <<>> /\ Outcome(sess, Head(inbox)) = "deliver" /\ inbox' = Tail(inbox))
       => ~pending' /\ result'.k \in {"value", "raise"}]_vars
(* C10 *)
AcceptOnlyAuthenticated ==
  (result.k = "value" /\ Ver = "v3" /\ HasAuth) =>
      (result.fa /\ result.mac = "valid" /\ (HasPriv => result.enc = "ok"))
(* reports never yield a value *)
TypeOK == /\ pending \in BOOLEAN /\ Len(inbox) <= MaxInbox /\ nsent \in 0..MaxReq
Done == nsent = MaxReq /\ ~pending
=============================================================================
