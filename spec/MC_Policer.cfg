SPECIFICATION Spec
CONSTANTS
  D = 4
  MaxGap = 12
  K = 4
INVARIANTS TypeOK DelayAtMostD SlotInv SlotAdvance Window Monotone
CHECK_DEADLOCK FALSE
