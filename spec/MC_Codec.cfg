CONSTANTS MaxOctets = 2
