------------------------------ MODULE PoolConc ------------------------------
(***************************************************************************)
(* The buffer pool under real concurrency: sends and receives release the  *)
(* GIL (py.allow_threads, src/socket/snmpsocket.rs), so several Python     *)
(* threads, each with its own session, acquire / use / release pooled      *)
(* buffers at the same time (src/buf/pool.rs: Mutex<Vec<Buffer>>).         *)
(* One action per critical section under the pool lock.                    *)
(***************************************************************************)
EXTENDS Naturals, FiniteSets, TLC

CONSTANTS Threads, MaxOps, DEV_NoResetOnDrop

VARIABLES pool,     \* set of idle buffer ids
          held,     \* thread -> buffer id it holds (0 = none)
          dirty,    \* ids of buffers whose write cursor is not at the start
          made,     \* number of buffers created so far
          ops       \* operations completed per thread
vars == <<pool, held, dirty, made, ops>>

Init == pool = {} /\ held = [t \in Threads |-> 0] /\ dirty = {} /\ made = 0 /\ ops = [t \in Threads |-> 0]

Acquire(t) ==        \* BufferPool::acquire - pop or create, under the lock
  /\ held[t] = 0 /\ ops[t] < MaxOps
  /\ IF pool = {}
       THEN /\ made' = made + 1 /\ held' = [held EXCEPT ![t] = made + 1] /\ UNCHANGED <<pool, dirty>>
       ELSE \E b \in pool : /\ held' = [held EXCEPT ![t] = b] /\ pool' = pool \ {b} /\ UNCHANGED <<made, dirty>>
  /\ UNCHANGED ops

Use(t) ==            \* the message is serialised / the datagram received, outside the lock
  /\ held[t] # 0 /\ held[t] \notin dirty
  /\ dirty' = dirty \cup {held[t]} /\ UNCHANGED <<pool, held, made, ops>>

Release(t) ==        \* BufferHandle::drop - reset, then push back under the lock
  /\ held[t] # 0
  /\ dirty' = IF DEV_NoResetOnDrop THEN dirty ELSE dirty \ {held[t]}
  /\ pool' = pool \cup {held[t]} /\ held' = [held EXCEPT ![t] = 0]
  /\ ops' = [ops EXCEPT ![t] = @ + 1] /\ UNCHANGED made

Next == \E t \in Threads : Acquire(t) \/ Use(t) \/ Release(t)
Spec == Init /\ [][Next]_vars

NoSharing == \A t, u \in Threads : (t # u /\ held[t] # 0) => held[t] # held[u]
HeldNotIdle == \A t \in Threads : held[t] # 0 => held[t] \notin pool
IdleAreClean == pool \cap dirty = {}                     \* every message starts in an empty buffer (C03)
BoundedCreation == made <= Cardinality(Threads)          \* never more buffers than concurrent users
=============================================================================
