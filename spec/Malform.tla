------------------------------ MODULE Malform ------------------------------
(***************************************************************************)
(* Generator of malformed datagrams (C01, C16): TLC walks well-formed      *)
(* template messages, finds every TLV node with the position machine of    *)
(* BER!TLVAt, and applies every mutation of a fixed catalogue derived from *)
(* that machine (each way of running off the input, each length form,      *)
(* each tag the library knows).  Lengths of enclosing elements are NOT     *)
(* fixed up, so inner lengths that exceed the outer remainder and octets   *)
(* after the top-level message arise naturally (C16).  One JSON line per   *)
(* datagram: [t (template), ver, mut, b, why] where why is the verdict of  *)
(* SNMP!Decode for the template's version ("" when it still decodes).      *)
(***************************************************************************)
EXTENDS SNMP, Json, IOUtils, FiniteSets

Templates == ndJsonDeserialize(IOEnv.TEMPLATES)      \* records [name, ver, b]

(* all TLV nodes (header start positions) of b within p..e, descending into constructed elements and
   into OCTET STRINGs whose contents parse as one SEQUENCE (msgSecurityParameters) *)
RECURSIVE Nodes(_, _, _, _)
Nodes(b, p, e, depth) ==
  IF p > e \/ depth > 8 THEN {}
  ELSE LET h == TLVAt(b, p, e) IN
       IF ~h.ok THEN {}
       ELSE LET inner == IF h.cons \/ (h.cls = 0 /\ h.tag = 4 /\ h.cl > 2 /\ b[h.cs] = 48)
                           THEN Nodes(b, h.cs, h.cs + h.cl - 1, depth + 1) ELSE {}
            IN {[pos |-> p, cs |-> h.cs, cl |-> h.cl, nx |-> h.nx]} \cup inner \cup Nodes(b, h.nx, e, depth)

Replace(b, i, x) == [b EXCEPT ![i] = x]
Splice(b, from, to, x) == SubSeq(b, 1, from - 1) \o x \o SubSeq(b, to + 1, Len(b))     \* replace b[from..to] by x

LenOctets(n) == {0, 127, 128, 129, 130, 132, 136, 255} \cup (IF n < 255 THEN {n + 1} ELSE {}) \cup (IF n > 0 THEN {n - 1} ELSE {})
Tags == {2, 4, 5, 6, 9, 13, 31, 48, 63, 64, 65, 70, 128, 129, 130, 160, 162, 168}

NodeMutants(b, n) ==
       { [mut |-> "len", b |-> Replace(b, n.pos + 1, v)] : v \in LenOctets(b[n.pos + 1]) }
  \cup { [mut |-> "tag", b |-> Replace(b, n.pos, t)] : t \in Tags }
  \cup { [mut |-> "tagbits", b |-> Replace(b, n.pos, (b[n.pos] + d) % 256)] : d \in {32, 64, 128} }
  \cup { [mut |-> "longtag", b |-> Splice(b, n.pos, n.pos, x)] : x \in {<<31, 128>>, <<31, 2>>, <<31, 255, 255, 2>>, <<31>>} }
  \cup { [mut |-> "empty", b |-> Splice(b, n.pos + 1, n.nx - 1, <<0>>)] }
  \cup { [mut |-> "content1", b |-> Splice(b, n.pos + 1, n.nx - 1, <<1, 128>>)] }
  \cup { [mut |-> "longlen", b |-> Splice(b, n.pos + 1, n.cs - 1, x)] :
            x \in { <<129, n.cl % 256>>, <<130, 0, n.cl % 256>>, <<132, 0, 0, 0, n.cl % 256>>,
                    <<136, 1, 0, 0, 0, 0, 0, 0, n.cl % 256>>, <<137, 1, 0, 0, 0, 0, 0, 0, 0, n.cl % 256>>, <<130, 255, 255>> } }
  \cup { [mut |-> "insert", b |-> Splice(b, n.nx, n.nx - 1, x)] : x \in {<<0>>, <<5, 0>>, <<255>>} }

Mutants(b) ==
       { [mut |-> "trunc", b |-> SubSeq(b, 1, k)] : k \in 0..(Len(b) - 1) }
  \cup { [mut |-> "trail", b |-> b \o x] : x \in {<<0>>, <<0, 0>>, <<5, 0>>, <<48, 130, 255, 255>>} }
  \cup UNION { NodeMutants(b, n) : n \in Nodes(b, 1, Len(b), 0) }

Why(ver, b) == LET d == Decode(ver, b) IN IF d.c = Reject THEN d.why ELSE IF d.c = Free THEN "free" ELSE IF d.c = Lenient THEN "lenient" ELSE IF d.c = NonMin THEN "nonminimal" ELSE ""

ASSUME \A i \in 1..Len(Templates) :
         LET t == Templates[i] IN
         \A m \in Mutants(t.b) : PrintT(ToJson([t |-> t.name, ver |-> t.ver, mut |-> m.mut, b |-> m.b, why |-> Why(t.ver, m.b)]))
ASSUME \A i \in 1..Len(Templates) : PrintT(ToJson([template |-> Templates[i].name, nodes |-> Cardinality(Nodes(Templates[i].b, 1, Len(Templates[i].b), 0)),
                                                    decodes |-> Why(Templates[i].ver, Templates[i].b)]))
=============================================================================
