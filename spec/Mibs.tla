-------------------------------- MODULE Mibs --------------------------------
(***************************************************************************)
(* C05: every MIB over a small universe of names chosen for the hazards of *)
(* the subtree test (multi-octet arcs 128 / 16384, entries before and      *)
(* after the subtree, nested subtrees) x every base OID of interest.       *)
(* TLC enumerates the (MIB, base) pairs, sorts each MIB in lexicographic   *)
(* OID order (Wire!OidLess) and computes the entries strictly below the    *)
(* base: the list a correct walk must yield.                               *)
(***************************************************************************)
EXTENDS Wire, Json, FiniteSets, SequencesExt

P == <<43, 6, 1, 4, 1, 206, 15>>          \* 1.3.6.1.4.1.9999
Univ == { P \o <<4, 1>>,                  \* before the subtree
          P \o <<5, 1>>,                  \* B.1
          P \o <<5, 2>>,                  \* B.2: a sibling of the leaf B.1 with an encoding of the same length
          P \o <<5, 127, 1>>,             \* B.127.1
          P \o <<5, 129, 0>>,             \* B.128          (81 00)
          P \o <<5, 129, 0, 7>>,          \* B.128.7
          P \o <<5, 129, 128, 0, 2>>,     \* B.16384.2      (81 80 00)
          P \o <<5, 255, 127, 3>>,        \* B.16383.3      (ff 7f: the largest two-octet sub-identifier)
          P \o <<6, 0>> }                 \* after the subtree
Bases == { P \o <<5>>,                    \* existing subtree
           P \o <<5, 127>>,               \* subtree with one leaf
           P \o <<5, 1>>,                 \* a leaf: nothing strictly below
           P \o <<5, 129, 0>>,            \* an entry that also has children
           P \o <<5, 135, 103>>,          \* absent (B.999)
           P \o <<5, 255, 127>>,          \* B.16383: the base itself contains a boundary sub-identifier
           P \o <<6>>,                    \* the last subtree: the agent runs off the end of the MIB
           <<43>> }                       \* 1.3: everything
CONSTANT MinSize       \* only MIBs with at least MinSize entries (quick tier thins the space)
Sorted(S) == SortSeq(SetToSeq(S), OidLess)
Below(mib, base) == SelectSeq(mib, LAMBDA n : InSubtree(base, n) /\ NormSubs(n) # NormSubs(base))
ASSUME \A S \in SUBSET Univ : Cardinality(S) >= MinSize =>
         \A b \in Bases : PrintT(ToJson([mib |-> Sorted(S), base |-> b, basetext |-> OidText(b).text,
                                         expect |-> Below(Sorted(S), b)]))
(* sanity of the oracle: the subtree list is sorted and inside *)
ASSUME \A S \in SUBSET Univ, b \in Bases :
         LET l == Below(Sorted(S), b) IN
         /\ \A i \in 1..Len(l) : InSubtree(b, l[i])
         /\ \A i \in 1..(Len(l) - 1) : OidLess(l[i], l[i + 1])
=============================================================================
