------------------------------- MODULE Octets -------------------------------
(***************************************************************************)
(* Octet sequences and unbounded naturals as digit sequences.              *)
(* TLC integers are 32-bit, SNMP carries 64-bit INTEGERs / Counter64 and   *)
(* 32-bit unsigned arcs, so every protocol number is a big-endian digit    *)
(* sequence ("BigNat": base 256, no leading zeros, <<>> = 0) and signed    *)
(* numbers are [neg |-> BOOLEAN, mag |-> BigNat].  Nothing is truncated.   *)
(***************************************************************************)
EXTENDS Integers, Sequences

RECURSIVE StripLZ(_)
StripLZ(s) == IF s # <<>> /\ s[1] = 0 THEN StripLZ(Tail(s)) ELSE s

Invert(s) == [i \in 1..Len(s) |-> 255 - s[i]]

RECURSIVE AddOneBE(_)
AddOneBE(s) == IF s = <<>> THEN <<1>>
               ELSE LET n == Len(s) IN
                    IF s[n] < 255 THEN [s EXCEPT ![n] = s[n] + 1]
                    ELSE Append(AddOneBE(SubSeq(s, 1, n - 1)), 0)

RECURSIVE CmpFrom(_, _, _)
CmpFrom(a, b, i) == IF i > Len(a) THEN 0
                    ELSE IF a[i] < b[i] THEN -1
                    ELSE IF a[i] > b[i] THEN 1
                    ELSE CmpFrom(a, b, i + 1)
(* compare two digit sequences without leading zeros: -1 / 0 / 1 *)
Cmp(a, b) == IF Len(a) < Len(b) THEN -1 ELSE IF Len(a) > Len(b) THEN 1 ELSE CmpFrom(a, b, 1)

(* value of a BigNat known to have at most 3 digits *)
Small(s) == IF s = <<>> THEN 0
            ELSE IF Len(s) = 1 THEN s[1]
            ELSE IF Len(s) = 2 THEN s[1] * 256 + s[2]
            ELSE s[1] * 65536 + s[2] * 256 + s[3]

(* little-endian digit sequence le (base `base`) times m plus carry *)
RECURSIVE MulAddLE(_, _, _, _)
MulAddLE(le, base, m, carry) ==
  IF le = <<>> THEN (IF carry = 0 THEN <<>> ELSE <<carry % base>> \o MulAddLE(<<>>, base, m, carry \div base))
  ELSE LET x == le[1] * m + carry IN <<x % base>> \o MulAddLE(Tail(le), base, m, x \div base)

(* convert big-endian digits in base `from` to little-endian digits in base `to` *)
RECURSIVE ConvLE(_, _, _, _)
ConvLE(digits, from, to, acc) ==
  IF digits = <<>> THEN acc ELSE ConvLE(Tail(digits), from, to, MulAddLE(acc, to, from, digits[1]))

Reverse(s) == [i \in 1..Len(s) |-> s[Len(s) + 1 - i]]

(* big-endian digits in base `from` -> big-endian digits in base `to`, no leading zeros (<<>> = 0) *)
Conv(digits, from, to) == Reverse(ConvLE(digits, from, to, <<>>))

(* decimal ASCII text (char codes) of a number given as big-endian digits in base `from` *)
DecText(digits, from) ==
  LET d == Conv(digits, from, 10) IN
  IF d = <<>> THEN <<48>> ELSE [i \in 1..Len(d) |-> 48 + d[i]]

IsPrefixSeq(p, s) == Len(p) <= Len(s) /\ SubSeq(s, 1, Len(p)) = p

RECURSIVE Join(_, _)
(* concatenate a sequence of sequences with separator octet sep *)
Join(ss, sep) == IF ss = <<>> THEN <<>>
                 ELSE IF Len(ss) = 1 THEN ss[1]
                 ELSE ss[1] \o <<sep>> \o Join(Tail(ss), sep)

RECURSIVE Flatten(_)
Flatten(ss) == IF ss = <<>> THEN <<>> ELSE ss[1] \o Flatten(Tail(ss))

Fill(n, x) == [i \in 1..n |-> x]

(* two's-complement content octets -> signed number *)
SignedOf(c) ==
  IF c = <<>> THEN [neg |-> FALSE, mag |-> <<>>]
  ELSE IF c[1] < 128 THEN [neg |-> FALSE, mag |-> StripLZ(c)]
  ELSE [neg |-> TRUE, mag |-> StripLZ(AddOneBE(Invert(c)))]

(* minimal two's-complement content octets of a signed number (X.690 8.3) *)
SignedEnc(v) ==
  IF ~v.neg THEN (IF v.mag = <<>> THEN <<0>> ELSE IF v.mag[1] >= 128 THEN <<0>> \o v.mag ELSE v.mag)
  ELSE LET c == AddOneBE(Invert(v.mag))
           cc == IF Len(c) > Len(v.mag) THEN Tail(c) ELSE c     \* cannot happen for mag # 0; defensive
       IN IF cc[1] < 128 THEN <<255>> \o cc ELSE cc

(* content octets are the minimal two's-complement form *)
SignedMinimal(c) ==
  /\ c # <<>>
  /\ Len(c) > 1 => ~((c[1] = 0 /\ c[2] < 128) \/ (c[1] = 255 /\ c[2] >= 128))

(* sign-extend content octets to exactly w octets (Len(c) <= w) *)
SignExtend(c, w) == Fill(w - Len(c), IF c # <<>> /\ c[1] >= 128 THEN 255 ELSE 0) \o c
=============================================================================
