-------------------------------- MODULE Usm --------------------------------
(***************************************************************************)
(* Engine discovery and time synchronisation of one SNMPv3 session (C13):  *)
(* the state the socket keeps about the authoritative engine               *)
(* (src/socket/v3.rs:29-39, 247-272), key localisation in set_keys()       *)
(* (v3.rs:86-110) and the two-step refresh() of the Python clients         *)
(* (sync_client/client.py:296-329, async_client/client.py refresh()).      *)
(* Actions follow the implementation's steps:                              *)
(*   Probe       refresh(): GET without varbinds, reportable flag          *)
(*   Request     a data request (get ...)                                  *)
(*   Accept(m)   a reply from the agent is accepted by unwrap_pdu          *)
(*   Lost        the reply never arrives: the call times out               *)
(*   SetKeys     deferred user installed, keys localised to sess.engine    *)
(* The agent has an identity (engine id) and a clock (boots, time) which   *)
(* the environment may change between replies.                             *)
(***************************************************************************)
EXTENDS Naturals, Sequences, TLC

CONSTANTS EngineGiven,        \* the session was created with the engine id of agent identity "A"
          Engines,            \* e.g. {"A", "B"}
          Clocks,             \* e.g. {<<0, 0>>, <<1, 5>>, <<9, 9>>}
          MaxSteps

None == "none"                 \* "no engine id yet"
NoMsg == [kind |-> "none"]     \* "no message"

VARIABLES sess,        \* [engine, boots, time, keyEngine, deferred]
          agent,       \* [engine, clock]
          outstanding, \* header of the request on the wire, or None
          wire,        \* headers of all requests sent so far
          lastAccepted,\* clock and engine of the most recent accepted message, or None
          steps, hist
vars == <<sess, agent, outstanding, wire, lastAccepted, steps, hist>>
View == <<sess, agent, outstanding, lastAccepted, steps>>

Init == /\ sess = [engine |-> IF EngineGiven THEN "A" ELSE None, boots |-> 0, time |-> 0,
                   keyEngine |-> IF EngineGiven THEN "A" ELSE None,      \* keys localised at construction only if known
                   deferred |-> ~EngineGiven]
        /\ agent = [engine |-> "A", clock |-> <<1, 5>>]
        /\ outstanding = NoMsg /\ wire = <<>> /\ lastAccepted = NoMsg /\ steps = 0 /\ hist = <<>>

Header(kind) == [kind |-> kind, engine |-> sess.engine, boots |-> sess.boots, time |-> sess.time,
                 keyEngine |-> sess.keyEngine, authed |-> ~sess.deferred]

Send(kind) ==
  /\ outstanding = NoMsg /\ steps < MaxSteps
  /\ outstanding' = Header(kind) /\ wire' = Append(wire, Header(kind))
  /\ steps' = steps + 1 /\ UNCHANGED <<sess, agent, lastAccepted>>
  /\ hist' = Append(hist, [a |-> kind])

(* the agent answers the outstanding request with its identity and clock; unwrap_pdu accepts it iff the
   engine id matches (or none is known yet) *)
Accept ==
  /\ outstanding # NoMsg
  /\ sess.engine = None \/ sess.engine = agent.engine
  /\ sess' = [sess EXCEPT !.boots = agent.clock[1], !.time = agent.clock[2],
                          !.engine = IF @ = None THEN agent.engine ELSE @]       \* adopted once
  /\ lastAccepted' = [kind |-> "msg", engine |-> agent.engine, clock |-> agent.clock]
  /\ outstanding' = NoMsg /\ UNCHANGED <<agent, wire, steps>>
  /\ hist' = Append(hist, [a |-> "reply", engine |-> agent.engine, clock |-> agent.clock])

Lost ==        \* dropped, or skipped because it comes from another engine: the call times out
  /\ outstanding # NoMsg
  /\ outstanding' = NoMsg /\ UNCHANGED <<sess, agent, wire, lastAccepted, steps>>
  /\ hist' = Append(hist, [a |-> "lost", engine |-> agent.engine, clock |-> agent.clock])

SetKeys ==     \* only as part of refresh(): after the first probe was answered
  /\ outstanding = NoMsg /\ sess.deferred /\ sess.engine # None
  /\ sess' = [sess EXCEPT !.deferred = FALSE, !.keyEngine = sess.engine]
  /\ UNCHANGED <<agent, outstanding, wire, lastAccepted, steps>>
  /\ hist' = Append(hist, [a |-> "set_keys"])

AgentChanges ==
  /\ outstanding = NoMsg /\ steps < MaxSteps
  /\ \E e \in Engines, c \in Clocks :
        /\ agent' = [engine |-> e, clock |-> c] /\ agent' # agent
  /\ UNCHANGED <<sess, outstanding, wire, lastAccepted, steps, hist>>

Next == Send("probe") \/ (~sess.deferred /\ Send("request")) \/ Accept \/ Lost \/ SetKeys \/ AgentChanges
Spec == Init /\ [][Next]_vars

-----------------------------------------------------------------------------
(* C13 *)
(* the session's view of the agent's clock is that of the most recent accepted message ... *)
ViewFollowsAgent ==
  lastAccepted # NoMsg => (sess.boots = lastAccepted.clock[1] /\ sess.time = lastAccepted.clock[2])
(* ... and every request is stamped with the session's current view (engine id, boots, time) *)
StampFollowsAgent ==
  [][(outstanding = NoMsg /\ outstanding' # NoMsg) =>
        (outstanding'.engine = sess.engine /\ outstanding'.boots = sess.boots /\ outstanding'.time = sess.time)]_vars
(* the engine id is learned once and never replaced *)
EngineLearnedOnce == [][sess.engine # None => sess'.engine = sess.engine]_vars
(* keys are always localised to the engine id the session stamps on its messages *)
KeysLocalizedToLearned == \A i \in 1..Len(wire) : wire[i].authed => wire[i].keyEngine = wire[i].engine
(* a session created with an engine id uses it from its first message *)
GivenEngineUsedFromFirstMessage == (EngineGiven /\ Len(wire) > 0) => wire[1].engine = "A"
(* no data request before the user's keys are installed *)
NoRequestBeforeKeys == \A i \in 1..Len(wire) : wire[i].kind = "request" => wire[i].authed
=============================================================================
