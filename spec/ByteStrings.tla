----------------------------- MODULE ByteStrings -----------------------------
(***************************************************************************)
(* C01: short datagrams over the byte classes that the BER position        *)
(* machine (BER!TLVAt) distinguishes: every string of 0..N octets over the *)
(* class alphabet, with the machine's verdict.  (All 65 792 strings of     *)
(* length <= 2 over the full byte alphabet are enumerated by the driver.)  *)
(***************************************************************************)
EXTENDS BER, Json, FiniteSets
CONSTANT N
Classes == {0, 2, 4, 5, 6, 31, 48, 127, 128, 129, 130, 132, 162, 255}
Strings == UNION { [1..n -> Classes] : n \in 0..N }
Verdict(s) == LET h == TLVAt(s, 1, Len(s)) IN IF h.ok THEN "ok" ELSE h.why
ASSUME \A s \in Strings : PrintT(ToJson([s |-> s, v |-> Verdict(s)]))
ASSUME PrintT(ToJson([count |-> Cardinality(Strings)]))
=============================================================================
