----------------------------- MODULE MC_Timeout -----------------------------
EXTENDS Timeout, Json
(* final verdict of each schedule, for replay in real time *)
VARIABLE sched
MCInit == Init /\ sched = [strays |-> strays, match |-> match]
MCNext == Next /\ UNCHANGED sched
MCSpec == MCInit /\ [][MCNext]_<<vars, sched>>
Report == (~pending /\ now >= doneAt) => PrintT(ToJson([strays |-> sched.strays, match |-> sched.match, result |-> result, at |-> doneAt]))
=============================================================================
