------------------------------ MODULE MC_Buffer ------------------------------
EXTENDS Buffer, Json
ArgsSmall == {0, 1, 2, 3, 5, 12, 14, 20, 39, 40, 41}
ArgsReal == {0, 1, 2, 3, 126, 127, 128, 129, 255, 256, 257, 1000, 4076, 4077, 4078, 4079, 4080, 4081}
St == [pos |-> pos]
ExportNext ==
  \/ \E n \in Args :
       \/ Push(n) /\ PrintT(ToJson([from |-> St, op |-> "push", arg |-> n, res |-> last'.res, to |-> [pos |-> pos']]))
       \/ PushTagLen(n) /\ PrintT(ToJson([from |-> St, op |-> "push_tag_len", arg |-> n, res |-> last'.res, to |-> [pos |-> pos']]))
       \/ Skip(n) /\ PrintT(ToJson([from |-> St, op |-> "skip", arg |-> n, res |-> last'.res, to |-> [pos |-> pos']]))
  \/ Reset /\ PrintT(ToJson([from |-> St, op |-> "reset", arg |-> 0, res |-> "ok", to |-> [pos |-> pos']]))
  \/ PushAuthPlaceholder /\ PrintT(ToJson([from |-> St, op |-> "auth_placeholder", arg |-> 12, res |-> last'.res, to |-> [pos |-> pos']]))
ExportSpec == Init /\ [][ExportNext]_vars
ExportView == pos
=============================================================================
