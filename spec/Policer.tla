------------------------------- MODULE Policer -------------------------------
(***************************************************************************)
(* RPSPolicer (src/gufo/snmp/policer.py:88-130) as a state machine.        *)
(*                                                                         *)
(* Time is kept RELATIVE to the current slot start `_prev`, so the         *)
(* reachable state space for a given interval D is the finite set of       *)
(* phase offsets.  One action = one call of get_timeout(ts) followed by    *)
(* the sleep performed by wait()/wait_sync(); the request is "released"    *)
(* at rel = ts + timeout.  The environment obeys the hypothesis of C19:    *)
(* the next call is made at ts >= previous release (monotonic clock).      *)
(*                                                                         *)
(*   off   = rel - prev   (offset of the latest release in its slot)       *)
(*   hist  = the last K releases, as non-positive offsets from `prev`      *)
(*           (hist[1] is the latest = off ... stored as rel - prev)        *)
(***************************************************************************)
EXTENDS Integers, Sequences, TLC

CONSTANTS D,        \* interval in ns  (= int(1e9 / rps)), D >= 1
          MaxGap,   \* the environment waits 0..MaxGap after a release before the next call
          K         \* length of the release history kept for the window property

ASSUME D \in Nat /\ D >= 1 /\ MaxGap \in Nat /\ K \in Nat

VARIABLES started,  \* FALSE until the first call (self._prev is None)
          off,      \* rel - prev of the latest release
          hist,     \* sequence of (release - prev) for the latest <= K+1 releases, newest first
          lastDelay,\* delay imposed on the latest request (0 when passed immediately)
          lastAdv   \* prev' - prev of the latest step (slot advance)

vars == <<started, off, hist, lastDelay, lastAdv>>

Init == /\ started = FALSE /\ off = 0 /\ hist = <<>> /\ lastDelay = 0 /\ lastAdv = 0

Trunc(s) == IF Len(s) > K + 1 THEN SubSeq(s, 1, K + 1) ELSE s
Shift(s, d) == [i \in 1..Len(s) |-> s[i] - d]

(* get_timeout as a pure function of (interval, off, gap):  <<delay, slot advance, new off>> *)
StepFn(d, o, g) ==
  LET elapsed == o + g IN
  IF elapsed < d
    THEN <<d - elapsed, d, 0>>                        \* policer.py:118-122  sleep to slot start
    ELSE <<0, d * (elapsed \div d), elapsed % d>>     \* policer.py:123-125  late: pass now
Step(o, g) == StepFn(D, o, g)
(* window property on a history h (newest first, offsets from the current slot start) *)
WindowOn(d, h, kmax) == \A k \in 1..kmax : Len(h) >= k + 1 => h[1] - h[k + 1] > (k - 1) * d

First ==                                   \* policer.py:107-110
  /\ ~started
  /\ started' = TRUE /\ off' = 0 /\ hist' = <<0>> /\ lastDelay' = 0 /\ lastAdv' = 0

Call(g) ==
  /\ started
  /\ LET r == Step(off, g) IN
       /\ lastDelay' = r[1]
       /\ lastAdv' = r[2]
       /\ off' = r[3]
       /\ hist' = Trunc(<<r[3]>> \o Shift(hist, r[2]))
  /\ UNCHANGED started

Next == First \/ \E g \in 0..MaxGap : Call(g)
Spec == Init /\ [][Next]_vars

-----------------------------------------------------------------------------
(* C19 *)
DelayAtMostD == lastDelay >= 0 /\ lastDelay <= D
SlotInv      == started => (0 <= off /\ off < D)            \* prev <= rel < prev + D
SlotAdvance  == (started /\ Len(hist) > 1) => lastAdv >= D  \* prev' >= prev + D
(* any k+1 consecutive releases span more than (k-1)*D *)
Window == WindowOn(D, hist, K)
(* releases are non-decreasing *)
Monotone == \A i \in 1..Len(hist) - 1 : hist[i] >= hist[i + 1]
TypeOK == /\ started \in BOOLEAN /\ off \in 0..(D - 1) /\ lastDelay \in 0..D

(* constructor: policer.py:88-96 over integer rps (NS = 10^9) *)
NS == 1000000000
Construct(rps) == IF rps <= 0 THEN "Refuse"
                  ELSE IF NS \div rps = 0 THEN "Refuse" ELSE NS \div rps
=============================================================================
