-------------------------------- MODULE Walk --------------------------------
(***************************************************************************)
(* A subtree walk (getnext / getbulk / fetch) against an arbitrary agent.  *)
(* One action per critical section of the implementation:                  *)
(*   Round(r)   IterSend ; the agent's reply r arrives ; recv_get_next /   *)
(*              recv_get_bulk processes it (src/snmp/op/getnext.rs:28-68,  *)
(*              getbulk.rs:33-75, getiter.rs:39-46)                        *)
(*   Pop        the Python iterator hands the next buffered pair to the    *)
(*              caller (sync_client/getbulk.py, async_client/client.py)    *)
(* OIDs are arc sequences over a small universe around the base; a reply   *)
(* is ANY list of up to MaxVb (OID, kind) pairs, kind in {val, null, exc}  *)
(* (exc = noSuchObject / noSuchInstance / endOfMibView).                   *)
(* DEV_NoMonotoneCheck reproduces the pinned commit, which compares a new  *)
(* OID with the base only, never with the previous one.                    *)
(***************************************************************************)
EXTENDS Naturals, Sequences, FiniteSets, TLC

CONSTANTS Bulk,                 \* TRUE: getbulk, FALSE: getnext
          MaxReplies, MaxVb,
          DEV_NoMonotoneCheck

Base == <<1, 3>>
Univ == { <<1, 2>>, <<1, 3>>, <<1, 3, 1>>, <<1, 3, 2>>, <<1, 4>> }
Kinds == {"val", "null", "exc"}

IsPrefix(p, o) == Len(p) <= Len(o) /\ SubSeq(o, 1, Len(p)) = p
RECURSIVE Less(_, _)
Less(a, b) == IF a = <<>> THEN b # <<>>
              ELSE IF b = <<>> THEN FALSE
              ELSE IF a[1] # b[1] THEN a[1] < b[1]
              ELSE Less(Tail(a), Tail(b))

Replies == UNION { [1..n -> Univ \X Kinds] : n \in 0..MaxVb }

VARIABLES last,      \* OID of the next request (= last accepted OID, initially the base)
          yielded,   \* pairs handed to the caller so far (OIDs)
          pybuf,     \* pairs buffered in the Python iterator
          stopped,   \* the walk has ended (StopIteration raised)
          willStop,  \* a stop marker is queued behind pybuf
          nreq, asked,
          hist
vars == <<last, yielded, pybuf, stopped, willStop, nreq, asked, hist>>
View == <<last, yielded, pybuf, stopped, willStop, nreq, asked>>

Init == /\ last = Base /\ yielded = <<>> /\ pybuf = <<>> /\ stopped = FALSE /\ willStop = FALSE
        /\ nreq = 0 /\ asked = <<>> /\ hist = <<>>

Acceptable(o, prev) == IsPrefix(Base, o) /\ (DEV_NoMonotoneCheck \/ Less(prev, o))

(* getbulk.rs as one function: reply -> [out (pairs to yield), nxt, stop] *)
RECURSIVE Scan(_, _, _)
Scan(r, prev, out) ==
  IF r = <<>> THEN [out |-> out, nxt |-> prev, stop |-> FALSE]
  ELSE LET o == r[1][1]  k == r[1][2] IN
       IF k # "val" THEN Scan(Tail(r), prev, out)                       \* NULL / exception values carry no data
       ELSE IF ~Acceptable(o, prev) THEN [out |-> out, nxt |-> prev, stop |-> TRUE]
       ELSE Scan(Tail(r), o, Append(out, o))

BulkRound(r) ==
  /\ Bulk /\ ~stopped /\ pybuf = <<>> /\ ~willStop /\ nreq < MaxReplies
  /\ nreq' = nreq + 1 /\ asked' = Append(asked, last)
  /\ LET res == Scan(r, last, <<>>) IN
       /\ pybuf' = res.out /\ last' = res.nxt
       /\ IF res.out = <<>> THEN stopped' = TRUE /\ willStop' = FALSE       \* no further data: ends at once
          ELSE stopped' = FALSE /\ willStop' = res.stop
  /\ UNCHANGED yielded
  /\ hist' = Append(hist, [a |-> "reply", r |-> r])

NextRound(r) ==
  /\ ~Bulk /\ ~stopped /\ pybuf = <<>> /\ nreq < MaxReplies
  /\ nreq' = nreq + 1 /\ asked' = Append(asked, last)
  /\ IF Len(r) = 1 /\ r[1][2] = "val" /\ Acceptable(r[1][1], last)
       THEN pybuf' = <<r[1][1]>> /\ last' = r[1][1] /\ UNCHANGED stopped
       ELSE stopped' = TRUE /\ UNCHANGED <<pybuf, last>>                 \* empty / not in subtree / no data: stop
                                                                         \* (a reply with several varbinds is an error: also ends)
  /\ UNCHANGED <<yielded, willStop>>
  /\ hist' = Append(hist, [a |-> "reply", r |-> r])

Pop ==
  /\ ~stopped /\ pybuf # <<>>
  /\ yielded' = Append(yielded, Head(pybuf)) /\ pybuf' = Tail(pybuf)
  /\ IF Tail(pybuf) = <<>> /\ willStop THEN stopped' = TRUE /\ willStop' = FALSE
     ELSE UNCHANGED <<stopped, willStop>>
  /\ UNCHANGED <<last, nreq, asked>>
  /\ hist' = Append(hist, [a |-> "pop"])

Next == Pop \/ \E r \in Replies : (BulkRound(r) \/ NextRound(r))
Spec == Init /\ [][Next]_vars

-----------------------------------------------------------------------------
(* C06 *)
YieldInsideSubtree == \A i \in 1..Len(yielded) : IsPrefix(Base, yielded[i])
YieldStrictlyIncreasing == \A i \in 1..(Len(yielded) - 1) : Less(yielded[i], yielded[i + 1])
(* every follow-up request asks for the last OID accepted (the base for the first one) *)
FollowUpIsLastAccepted ==
  \A i \in 1..Len(asked) : asked[i] = Base \/ \E j \in 1..Len(yielded) \cup {0} :
       (j > 0 /\ asked[i] = yielded[j]) \/ (\E k \in 1..Len(pybuf) : asked[i] = pybuf[k])
(* termination: in the finite universe every accepted OID is strictly larger, so a walk makes at most
   |Univ| productive rounds; a round that accepts nothing ends the walk *)
BoundedProgress == Len(yielded) + Len(pybuf) <= Cardinality({o \in Univ : IsPrefix(Base, o)})
StopsOnNoData == [][(nreq' = nreq + 1 /\ pybuf' = <<>>) => stopped']_vars
TypeOK == stopped \in BOOLEAN /\ nreq \in 0..MaxReplies
=============================================================================
