----------------------------- MODULE MC_Privacy -----------------------------
EXTENDS Privacy, Json
ExportDone == Done => PrintT(ToJson([script |-> hist]))
=============================================================================
