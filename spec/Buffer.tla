------------------------------- MODULE Buffer -------------------------------
(***************************************************************************)
(* The back-to-front stack buffer (src/buf/buffer.rs) and its pool         *)
(* (src/buf/pool.rs).  Data lives in [pos, MAX); pushes move pos down.     *)
(*   pos        index of the first valid octet (MAX = empty)               *)
(*   minW       lowest index ever written since the buffer was created     *)
(*              (octets below it have never been written)                  *)
(*   bm, bmSet  bookmark (absolute index) and whether it was set while     *)
(*              building the current message (since the last reset)        *)
(*   placeholder absolute index of the 12 MAC placeholder octets of the    *)
(*              current message, or -1                                     *)
(* One action per method; every method that does not fit fails with        *)
(* OutOfBuffer and changes nothing (push_tagged is two methods).           *)
(***************************************************************************)
EXTENDS Integers, Sequences, TLC

CONSTANTS MAX, Args          \* capacity; argument values tried for sizes / lengths

VARIABLES pos, minW, bm, bmSet, placeholder, last
vars == <<pos, minW, bm, bmSet, placeholder, last>>

Init == pos = MAX /\ minW = MAX /\ bm = 0 /\ bmSet = FALSE /\ placeholder = -1 /\ last = [op |-> "new", res |-> "ok"]

Min(a, b) == IF a < b THEN a ELSE b
TagLenSize(v) == IF v < 128 THEN 2 ELSE IF v < 256 THEN 3 ELSE 4

Ok(op, n) == last' = [op |-> op, arg |-> n, res |-> "ok"]
Fail(op, n) == /\ last' = [op |-> op, arg |-> n, res |-> "OutOfBuffer"]
               /\ UNCHANGED <<pos, minW, bm, bmSet, placeholder>>

Write(n) == pos' = pos - n /\ minW' = Min(minW, pos - n)

Push(n) ==                       \* push(&[u8; n]) / push_u8 (n = 1): buffer.rs:100-121
  IF pos < n THEN Fail("push", n)
  ELSE Write(n) /\ Ok("push", n) /\ UNCHANGED <<bm, bmSet, placeholder>>

PushTagLen(v) ==                 \* buffer.rs:123-149
  IF pos < TagLenSize(v) THEN Fail("push_tag_len", v)
  ELSE Write(TagLenSize(v)) /\ Ok("push_tag_len", v) /\ UNCHANGED <<bm, bmSet, placeholder>>

Skip(n) ==                       \* buffer.rs:86-92: clamps at 0; exposes octets without writing them
  /\ pos' = (IF pos < n THEN 0 ELSE pos - n)
  /\ Ok("skip", n) /\ UNCHANGED <<minW, bm, bmSet, placeholder>>

FillAll ==                       \* a decryptor writes the whole exposed area
  /\ minW' = Min(minW, pos) /\ Ok("fill", 0) /\ UNCHANGED <<pos, bm, bmSet, placeholder>>

Reset ==                         \* buffer.rs:157-159 and pool.rs Drop
  /\ pos' = MAX /\ bmSet' = FALSE /\ placeholder' = -1
  /\ Ok("reset", 0) /\ UNCHANGED <<minW, bm>>

(* usm.rs:66-73: push the 12-octet placeholder as a TLV (header 2 octets), then set_bookmark(2) *)
PushAuthPlaceholder ==
  IF pos < 14 THEN Fail("auth_placeholder", 12)
  ELSE /\ Write(14) /\ bm' = (pos - 14) + 2 /\ bmSet' = TRUE /\ placeholder' = (pos - 14) + 2
       /\ Ok("auth_placeholder", 12)

Next == \/ \E n \in Args : Push(n) \/ PushTagLen(n) \/ Skip(n)
        \/ FillAll \/ Reset \/ PushAuthPlaceholder
Spec == Init /\ [][Next]_vars

-----------------------------------------------------------------------------
(* C17 *)
InBounds == 0 <= pos /\ pos <= MAX /\ 0 <= minW /\ minW <= MAX
(* the slice handed to send() / to a decoder: only written octets, unless a skip has just exposed some *)
NoUnwrittenExposed == (last.op \notin {"skip"}) => (pos >= minW \/ last.res = "OutOfBuffer" \/ last.op = "reset")
FailChangesNothing == [][last'.res = "OutOfBuffer" => UNCHANGED <<pos, minW, bm, bmSet, placeholder>>]_vars
(* C09: get_bookmark() = bm - pos is the offset of the MAC placeholder inside data() iff it was set while
   building the current message *)
BookmarkLemma == bmSet => (bm >= pos /\ bm = placeholder /\ bm + 12 <= MAX)
=============================================================================
