----------------------------- MODULE TraceTimeout -----------------------------
(***************************************************************************)
(* Validation of real-time replays of Timeout.tla schedules (C18).         *)
(*  Timed  client ver T tick_ms strays match result elapsed_ms slack_ms    *)
(* The required outcome of a schedule is the one the model (without the    *)
(* deviation) reaches: the matching reply is delivered iff it arrives      *)
(* before the timeout, otherwise TimeoutError at the timeout - whatever    *)
(* strays arrive.  Elapsed wall-clock time may exceed the model's instant  *)
(* by the scheduling slack only.                                           *)
(***************************************************************************)
EXTENDS Naturals, Sequences, TLC, Json, IOUtils
Rec == ndJsonDeserialize(IOEnv.TRACE)
VARIABLES l, fails
tvars == <<l, fails>>
TInit == l = 1 /\ fails = <<>>
(* reply = kind of the matching reply: a Report ends the call with SnmpAuthError, an exception value with NoSuchInstance - when it
   arrives, like any other matching reply *)
Delivered(r) == IF r.reply = "report" THEN "SnmpAuthError" ELSE IF r.reply = "nosuch" THEN "NoSuchInstance" ELSE "delivered"
Expected(r) == IF r.match # 0 /\ r.match < r.T THEN [res |-> Delivered(r), at |-> r.match]
               ELSE [res |-> "TimeoutError", at |-> r.T]
(* signals = TRUE: the process handled signals while the (sync) request was blocked.  What the interrupted call returns is not the
   property's business (the library reports the interruption as OSError at once; retrying is legitimate as well) - only the bound is:
   the call is over by its deadline. *)
(* result = "NotRun": the driver stopped driving this client after two of its calls failed to return at all (each reported as
   DidNotReturn); nothing was observed for this schedule *)
Good(r) == LET x == Expected(r) IN
           IF r.result = "NotRun" THEN TRUE ELSE
           IF r.signals
             THEN /\ r.result \in {"TimeoutError", "OSError", "InterruptedError", "delivered"}
                  /\ r.elapsed_ms <= r.T * r.tick_ms + r.slack_ms
             ELSE
           /\ r.result = x.res
           /\ r.elapsed_ms <= x.at * r.tick_ms + r.slack_ms          \* never outlives its timeout (plus slack)
           /\ r.elapsed_ms + r.early_ms >= x.at * r.tick_ms           \* and does not give up early
TNext == /\ l <= Len(Rec) /\ l' = l + 1
         /\ fails' = IF Good(Rec[l]) THEN fails ELSE Append(fails, l)
         /\ (l' = Len(Rec) + 1) => PrintT(ToJson([fails |-> fails', nfails |-> Len(fails')]))
TSpec == TInit /\ [][TNext]_tvars
TraceAccepted ==
  LET n == TLCGet("stats").diameter - 1 IN
  IF n = Len(Rec) THEN PrintT(ToJson([accepted |-> n]))
  ELSE PrintT(ToJson([rejected_at |-> n + 1, event |-> Rec[n + 1]])) /\ FALSE
=============================================================================
