------------------------------- MODULE MC_Pool -------------------------------
EXTENDS Pool, Json
ExportDone == Done => PrintT(ToJson([history |-> hist]))
SessionsDef == {"A", "B"}
OpsDef == {"get", "get_many", "getnext", "getbulk", "refresh"}
FatesDef == {"answered", "stray-then-answered", "timeout", "decode-error", "oversize", "abandoned"}
=============================================================================
