------------------------------ MODULE TraceKeys ------------------------------
(***************************************************************************)
(* Trace validation for C12 (impl -> spec).                                *)
(*  Install  via acode akeylen pcode pkeylen exc bases isexc               *)
(*  Master   alg pw(desc) pwlen exc bases isexc out interp                 *)
(*  Localize alg master engine exc bases isexc out interp                  *)
(*  UserKeys aalg kt akey pcipher pkey outa outp exc bases isexc           *)
(* pw is described as [pat, n]: the octets pat repeated / cut to n octets  *)
(* (1 MiB passwords are not materialised in the trace).                    *)
(***************************************************************************)
EXTENDS KeySetup, Json, IOUtils

Rec == ndJsonDeserialize(IOEnv.TRACE)
VARIABLES l, fails
tvars == <<l, fails>>
TInit == l = 1 /\ fails = <<>>

Pick(interp, P(_)) == LET idx == {i \in 1..Len(interp) : P(interp[i])} IN
                      IF idx = {} THEN <<"missing">> ELSE interp[CHOOSE i \in idx : TRUE].out

Documented(e) == e.isexc /\ (e.exc = "ValueError" \/ \E i \in 1..Len(e.bases) : e.bases[i] \in {"SnmpError", "ValueError"})
Refused(e) == e.exc # "" /\ Documented(e)           \* an exception of a documented class - never a crash
Accepted(e) == e.exc = ""
Conforms(v, e) == IF v = "refuse" THEN Refused(e) ELSE IF v = "accept" THEN Accepted(e) ELSE (Accepted(e) \/ Refused(e))

InstallGood(e) == Conforms(InstallVerdict(e.acode, e.akeylen, e.pcode, e.pkeylen), e)
MasterGood(e) ==
  LET v == MasterVerdict(e.alg, e.pwlen) IN
  /\ Conforms(v, e)
  /\ (v = "accept" /\ Accepted(e)) =>
        e.out = Pick(e.interp, LAMBDA x : x.f = "kmaster" /\ x.alg = AlgOf(e.alg) /\ x.pat = e.pat /\ x.n = e.pwlen)
LocalizeGood(e) ==
  LET v == LocalizedVerdict(e.alg, Len(e.master)) IN
  /\ Conforms(v, e)
  /\ (v = "accept" /\ Accepted(e)) =>
        e.out = Pick(e.interp, LAMBDA x : x.f = "kul" /\ x.alg = AlgOf(e.alg) /\ x.master = e.master /\ x.engine = e.engine)

(*  UserKeys aalg kt akey pcipher pkey outa outp exc : what gufo.snmp.user.User hands to the socket for the keys the caller gave *)
(* aalg_out / palg_out (when recorded): the algorithm codes the User hands to the socket.  A key object that was configured means
   that security level is ON, whatever its material looks like (an empty key is a key: padded, or refused - never "no key") *)
Has(e, f) == f \in DOMAIN e
UserKeysGood(e) ==
  /\ (Accepted(e) /\ Has(e, "palg_out")) => (e.aalg_out = e.aalg /\ e.palg_out = e.pcipher)
  /\ Accepted(e) => /\ UserKeyOutOK(e.kt, e.akey, e.outa, e.aalg)
                    /\ e.pcipher # 0 => UserKeyOutOK(e.kt, e.pkey, e.outp, e.aalg)
  /\ (e.kt = 0 /\ Len(e.akey) > 0 /\ (e.pcipher # 0 => Len(e.pkey) > 0)) => Accepted(e)       \* non-empty passwords are never refused
  /\ (e.kt # 0 /\ Len(e.akey) = KeySize(e.aalg) /\ (e.pcipher # 0 => Len(e.pkey) = KeySize(e.aalg))) => Accepted(e)

Good(e) == IF e.ev = "Install" THEN InstallGood(e) ELSE IF e.ev = "Master" THEN MasterGood(e)
           ELSE IF e.ev = "UserKeys" THEN UserKeysGood(e) ELSE LocalizeGood(e)

TNext == /\ l <= Len(Rec) /\ l' = l + 1
         /\ fails' = IF Good(Rec[l]) THEN fails ELSE Append(fails, l)
         /\ (l' = Len(Rec) + 1) => PrintT(ToJson([fails |-> fails', nfails |-> Len(fails')]))
TSpec == TInit /\ [][TNext]_tvars
TraceAccepted ==
  LET n == TLCGet("stats").diameter - 1 IN
  IF n = Len(Rec) THEN PrintT(ToJson([accepted |-> n]))
  ELSE PrintT(ToJson([rejected_at |-> n + 1, event |-> Rec[n + 1]])) /\ FALSE
=============================================================================
