CONSTANTS Depth = 3
