------------------------------ MODULE Privacy ------------------------------
(***************************************************************************)
(* The privacy state of one v3 session (src/privacy/des.rs, aes128.rs,     *)
(* src/socket/v3.rs:202-245): a per-key-installation salt counter and a    *)
(* PRIVATE serialisation buffer that survives between calls.               *)
(*   Encrypt(n)  one outgoing request whose scoped PDU is n octets long    *)
(*   Decrypt     an encrypted reply is decrypted (resets the buffer)       *)
(*   NoReply     the call times out / a plaintext Report is accepted: the  *)
(*               cipher is not touched                                     *)
(*   SetKeys     a new key installation: counter re-seeded, new epoch      *)
(* The counter is modelled modulo M (the real width is 2^32 / 2^64).       *)
(* DEV_DesNoReset reproduces the pinned DES encrypt(), which serialises    *)
(* into the buffer without resetting it first.                             *)
(***************************************************************************)
EXTENDS Naturals, Sequences, FiniteSets, TLC

CONSTANTS Cipher,           \* "des" | "aes"
          M,                \* salt counter modulus in the model
          PduLens,          \* possible scoped-PDU lengths
          MaxBuf,           \* capacity of the private buffer
          MaxSteps,
          DEV_DesNoReset

Block == IF Cipher = "des" THEN 8 ELSE 16
PadTo(n) == IF (n % Block) = 0 THEN n ELSE (n + Block) - (n % Block)

VARIABLES salt, epoch, used, bufLen, lastPduLen, emitted, steps, hist
vars == <<salt, epoch, used, bufLen, lastPduLen, emitted, steps, hist>>
View == <<salt, epoch, used, bufLen, lastPduLen, emitted, steps>>

Init == /\ salt \in 0..(M - 1) /\ epoch = 0 /\ used = {} /\ bufLen = 0
        /\ lastPduLen = 0 /\ emitted = [ok |-> TRUE, len |-> 0, salt |-> 0, fresh |-> TRUE]
        /\ steps = 0 /\ hist = <<>>

Encrypt(n) ==
  /\ steps < MaxSteps
  /\ LET base == IF DEV_DesNoReset /\ Cipher = "des" THEN bufLen ELSE 0
         total == base + Block + n IN
     IF total > MaxBuf
       THEN /\ emitted' = [ok |-> FALSE, len |-> 0, salt |-> salt, fresh |-> TRUE]       \* OutOfBuffer: nothing sent
            /\ bufLen' = base + Block                                                      \* padding was pushed before the failure
            /\ UNCHANGED used
       ELSE /\ emitted' = [ok |-> TRUE, len |-> PadTo(total - Block), salt |-> salt, fresh |-> <<epoch, salt>> \notin used]
            /\ bufLen' = total
            /\ used' = used \cup {<<epoch, salt>>}
  /\ salt' = (salt + 1) % M                                    \* +1 per encrypt (des.rs:61, aes128.rs:57)
  /\ lastPduLen' = n /\ steps' = steps + 1 /\ UNCHANGED epoch
  /\ hist' = Append(hist, [a |-> "send", n |-> n])

Decrypt ==          \* des.rs:106 / aes128.rs:93: buf.reset(); buf.skip(len)
  /\ steps < MaxSteps
  /\ bufLen' = 0 /\ steps' = steps + 1
  /\ UNCHANGED <<salt, epoch, used, lastPduLen, emitted>>
  /\ hist' = Append(hist, [a |-> "reply-enc"])

NoReply(kind) ==
  /\ steps < MaxSteps /\ steps' = steps + 1
  /\ UNCHANGED <<salt, epoch, used, bufLen, lastPduLen, emitted>>
  /\ hist' = Append(hist, [a |-> kind])

SetKeys ==
  /\ steps < MaxSteps /\ steps' = steps + 1
  /\ epoch' = epoch + 1 /\ salt' \in 0..(M - 1) /\ bufLen' = 0
  /\ UNCHANGED <<used, lastPduLen, emitted>>
  /\ hist' = Append(hist, [a |-> "set-keys"])

Next == \/ \E n \in PduLens : Encrypt(n)
        \/ Decrypt \/ NoReply("timeout") \/ NoReply("reply-plain-report") \/ SetKeys
Spec == Init /\ [][Next]_vars

(* C11: msgData is exactly the padded scoped PDU of THIS request, whatever happened before *)
PayloadIsScopedPdu == emitted.ok => emitted.len = PadTo(lastPduLen)
(* C14: a salt is never reused within one key installation (as long as the counter has not wrapped) *)
SaltFresh == (Cardinality({u \in used : u[1] = epoch}) < M) => emitted.fresh
(* C17-like: a request that fits is never refused because of earlier traffic *)
NoSpuriousRefusal == ~emitted.ok => lastPduLen + Block > MaxBuf
Done == steps = MaxSteps
=============================================================================
