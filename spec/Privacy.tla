------------------------------ MODULE Privacy ------------------------------
(***************************************************************************)
(* The privacy state of one v3 session (src/privacy/des.rs, aes128.rs,     *)
(* src/socket/v3.rs:202-245): a per-key-installation salt counter and a    *)
(* PRIVATE serialisation buffer that survives between calls.               *)
(*   Encrypt(n)  one outgoing request whose scoped PDU is n octets long    *)
(*   Decrypt     an encrypted reply is decrypted (resets the buffer)       *)
(*   NoReply     the call times out / a plaintext Report is accepted: the  *)
(*               cipher is not touched                                     *)
(*   SetKeys     a new key installation: counter re-seeded, new epoch      *)
(*   SetKeysRefused  set_keys() with unusable key material raises: the     *)
(*               installation in force (key, counter, buffer) is untouched *)
(* The counter is modelled modulo M (the real width is 2^32 / 2^64).       *)
(* DEV_DesNoReset reproduces the pinned DES encrypt(), which serialises    *)
(* into the buffer without resetting it first.                             *)
(***************************************************************************)
EXTENDS Naturals, Sequences, FiniteSets, TLC

CONSTANTS Cipher,           \* "des" | "aes"
          M,                \* salt counter modulus in the model
          PduLens,          \* possible scoped-PDU lengths
          MaxBuf,           \* capacity of the private buffer
          MaxSteps,
          DEV_DesNoReset,
          DEV_PadOnce       \* deviation: the padding block is written at key installation only, not per message

Block == IF Cipher = "des" THEN 8 ELSE 16
PadTo(n) == IF (n % Block) = 0 THEN n ELSE (n + Block) - (n % Block)

VARIABLES salt, epoch, used, bufLen, lastPduLen, emitted, steps, hist,
          dirty,     \* the private buffer has been used (encrypt in place / decrypt) since the padding block was last written
          nbad       \* refused installations so far (bounded: at most one per history)
vars == <<salt, epoch, used, bufLen, lastPduLen, emitted, steps, hist, dirty, nbad>>
View == <<salt, epoch, used, bufLen, lastPduLen, emitted, steps, dirty, nbad>>

Init == /\ salt \in 0..(M - 1) /\ epoch = 0 /\ used = {} /\ bufLen = 0
        /\ lastPduLen = 0 /\ emitted = [ok |-> TRUE, len |-> 0, salt |-> 0, fresh |-> TRUE, padFresh |-> TRUE]
        /\ steps = 0 /\ hist = <<>> /\ dirty = FALSE /\ nbad = 0

Encrypt(n) ==
  /\ steps < MaxSteps
  /\ LET base == IF DEV_DesNoReset /\ Cipher = "des" THEN bufLen ELSE 0
         total == base + Block + n IN
     IF total > MaxBuf
       THEN /\ emitted' = [ok |-> FALSE, len |-> 0, salt |-> salt, fresh |-> TRUE, padFresh |-> TRUE]       \* OutOfBuffer: nothing sent
            /\ bufLen' = base + Block                                                      \* padding was pushed before the failure
            /\ UNCHANGED used
       ELSE /\ emitted' = [ok |-> TRUE, len |-> PadTo(total - Block), salt |-> salt, fresh |-> <<epoch, salt>> \notin used,
                            padFresh |-> ~(DEV_PadOnce /\ dirty)]                    \* padding pushed for this message (des.rs / aes128.rs encrypt())
            /\ bufLen' = total
            /\ used' = used \cup {<<epoch, salt>>}
  /\ salt' = (salt + 1) % M                                    \* +1 per encrypt (des.rs:61, aes128.rs:57)
  /\ lastPduLen' = n /\ steps' = steps + 1 /\ UNCHANGED <<epoch, nbad>>
  /\ dirty' = TRUE                                             \* encrypted in place
  /\ hist' = Append(hist, [a |-> "send", n |-> n])

Decrypt ==          \* des.rs:106 / aes128.rs:93: buf.reset(); buf.skip(len)
  /\ steps < MaxSteps
  /\ bufLen' = 0 /\ steps' = steps + 1 /\ dirty' = TRUE
  /\ UNCHANGED <<salt, epoch, used, lastPduLen, emitted, nbad>>
  /\ hist' = Append(hist, [a |-> "reply-enc"])

NoReply(kind) ==
  /\ steps < MaxSteps /\ steps' = steps + 1
  /\ UNCHANGED <<salt, epoch, used, bufLen, lastPduLen, emitted, dirty, nbad>>
  /\ hist' = Append(hist, [a |-> kind])

SetKeys ==
  /\ steps < MaxSteps /\ steps' = steps + 1
  /\ epoch' = epoch + 1 /\ salt' \in 0..(M - 1) /\ bufLen' = 0 /\ dirty' = FALSE
  /\ UNCHANGED <<used, lastPduLen, emitted, nbad>>
  /\ hist' = Append(hist, [a |-> "set-keys"])

SetKeysRefused ==      \* unusable key material: ValueError, and the installation in force stays exactly as it was
  /\ steps < MaxSteps /\ nbad < 1 /\ steps' = steps + 1 /\ nbad' = nbad + 1
  /\ UNCHANGED <<salt, epoch, used, bufLen, lastPduLen, emitted, dirty>>
  /\ hist' = Append(hist, [a |-> "set-keys-bad"])

Next == \/ \E n \in PduLens : Encrypt(n)
        \/ Decrypt \/ NoReply("timeout") \/ NoReply("reply-plain-report") \/ SetKeys \/ SetKeysRefused
Spec == Init /\ [][Next]_vars

(* C11: msgData is exactly the padded scoped PDU of THIS request, whatever happened before *)
PayloadIsScopedPdu == emitted.ok => emitted.len = PadTo(lastPduLen)
(* C14: a salt is never reused within one key installation (as long as the counter has not wrapped) *)
SaltFresh == (Cardinality({u \in used : u[1] = epoch}) < M) => emitted.fresh
(* C17: the padding that follows the scoped PDU was written for this message (never stale buffer contents) *)
PadWrittenForThisMessage == emitted.ok => emitted.padFresh
(* C17-like: a request that fits is never refused because of earlier traffic *)
NoSpuriousRefusal == ~emitted.ok => lastPduLen + Block > MaxBuf
Done == steps = MaxSteps
=============================================================================
