------------------------------- MODULE TraceOwn -------------------------------
(***************************************************************************)
(* C04 for calls that OVERLAP on one session (several coroutines / threads *)
(* with requests in flight at once - the session remembers one outstanding *)
(* request): whatever the schedule, a call returns only the reply to ITS   *)
(* OWN request, or ends with an exception.  The agent answers request k    *)
(* with the value k.                                                       *)
(*  Own  client ver asked got exc      (got = 0: no value returned)        *)
(***************************************************************************)
EXTENDS Naturals, Sequences, TLC, Json, IOUtils
Rec == ndJsonDeserialize(IOEnv.TRACE)
VARIABLES l, fails
tvars == <<l, fails>>
TInit == l = 1 /\ fails = <<>>
Good(r) == \/ (r.exc = "" /\ r.got = r.asked)            \* its own reply
           \/ (r.exc # "" /\ r.got = 0 /\ r.isexc)        \* or an exception (never a panic)
TNext == /\ l <= Len(Rec) /\ l' = l + 1
         /\ fails' = IF Good(Rec[l]) THEN fails ELSE Append(fails, l)
         /\ (l' = Len(Rec) + 1) => PrintT(ToJson([fails |-> fails', nfails |-> Len(fails')]))
TSpec == TInit /\ [][TNext]_tvars
TraceAccepted ==
  LET n == TLCGet("stats").diameter - 1 IN
  IF n = Len(Rec) THEN PrintT(ToJson([accepted |-> n]))
  ELSE PrintT(ToJson([rejected_at |-> n + 1, event |-> Rec[n + 1]])) /\ FALSE
=============================================================================
