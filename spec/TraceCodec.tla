----------------------------- MODULE TraceCodec -----------------------------
(***************************************************************************)
(* Validation of recorded codec observations (impl -> spec), batched.      *)
(* The Rust replay binary runs the library's own encoders / decoders and   *)
(* reports what they did; each event carries a batch of records and TLC    *)
(* judges every record with the TLA+ codec (BER / SNMP):                   *)
(*  IntBatch    {v, tlv, back, rest}       C15: encode(v) is THE minimal   *)
(*              X.690 form, decode(encode(v)) = v, nothing left over       *)
(*  OidBatch    {s, content, tlv, text}    C15/C08: OID text -> octets ->  *)
(*              TLV -> text                                                *)
(*  MsgBatch    {ver, wire, names, id, backok, backnames, backid}  C15:    *)
(*              request messages round-trip through the library's decoder  *)
(*              and are canonical for the independent decoder              *)
(*  ExtBatch    {kind, b, r, rest, val}    C16: decoding x \o s reads      *)
(*              exactly the declared extent of x                           *)
(*  TotBatch    {r}                        C01: every decoder call ends in *)
(*              ok / err, never panic / hang                               *)
(* Failing record numbers are printed; the event is then counted in fails. *)
(***************************************************************************)
EXTENDS Wire, Json, IOUtils, FiniteSets

Rec == ndJsonDeserialize(IOEnv.TRACE)

VARIABLES l, fails
tvars == <<l, fails>>
TInit == l = 1 /\ fails = <<>>

IntGood(r) ==
  LET c == SignedEnc(r.v) IN
  /\ r.tlv = MkTLV(2, c)                         \* the minimal two's complement form, short-form length
  /\ r.backok /\ r.back = r.v /\ r.rest = 0

OidGood(r) ==
  LET x == OidFromText(r.s) IN
  IF x.c = Reject THEN ~r.ok
  ELSE IF ~r.ok THEN x.c = Lenient
  ELSE /\ r.content = x.content
       /\ r.tlv = MkTLV(6, x.content)
       /\ x.c = Accept => r.text = r.s             \* rendered back to identical text

MsgGood(r) ==
  LET d == Decode(r.ver, r.wire) IN
  /\ d.c = Accept                                  \* minimal definite-length X.690
  /\ LET pdu == IF r.ver = "v3" THEN d.m.scoped.pdu ELSE d.m.pdu IN
     /\ pdu.reqid = r.id
     /\ Len(pdu.vbs) = Len(r.names)
     /\ \A i \in 1..Len(r.names) : pdu.vbs[i].name = r.names[i] /\ pdu.vbs[i].val.vt = "null"
  /\ IF r.ver = "v3" THEN /\ d.m.usm.user = r.user /\ d.m.usm.engine = r.engine       \* every OCTET STRING field as given
                           /\ d.m.scoped.ctxEngine = r.engine
                      ELSE d.m.community = r.community
  /\ r.backok /\ r.backnames = r.names /\ r.backid = r.id       \* the library's own decoder returns the original

(* C16.  kind "value": SnmpValue::from_ber(x \o s).  The element's extent is what its header declares. *)
ExtGood(r) ==
  LET n == Len(r.b)
      h == TLVAt(r.b, 1, n) IN
  IF ~h.ok THEN r.r # "ok" \/ r.free                \* cannot be decoded at all
  ELSE LET v == ValueOf(r.b, h) IN
       IF v.c = Reject THEN r.r # "ok"
       ELSE IF v.c = Free THEN TRUE
       ELSE IF r.r # "ok" THEN v.c = Lenient
       ELSE /\ r.rest = n + 1 - h.nx                \* the remaining input is exactly the appended octets
            /\ r.same                                \* and the value equals the value decoded without the suffix

TotGood(r) == r.r \in {"ok", "err"}

(* C16 on whole messages: a datagram in which a declared length runs past the enclosing element (or past the
   datagram), or which carries octets after the top-level message, must be rejected by the message decoder *)
ExtentReasons == {"overrun", "trailing-after-message", "trailing-in-pdu", "trailing-after-pdu", "toolong", "lenshort", "short", "usm-trailing"}
MsgExtGood(r) ==
  LET d == Decode(r.ver, r.b) IN
  /\ r.r \in {"ok", "err"}
  /\ (d.c = Reject /\ d.why \in ExtentReasons) => r.r = "err"

(* C01 through the API: the receiving call returned, skipped, or raised a documented exception *)
DocumentedExc == {"SnmpError", "SnmpDecodeError", "SnmpEncodeError", "SnmpAuthError", "NoSuchInstance", "TimeoutError", "BlockingIOError",
                  "OSError", "ValueError", "StopIteration", "StopAsyncIteration", "ConnectionRefusedError"}
(* NotImplementedError (a RuntimeError) is not in the property's list: no receive path of the library raises it *)
ApiGood(r) ==
  \/ r.exc = ""
  \/ /\ r.isexc                                             \* an Exception subclass (PanicException is not)
     /\ \/ r.exc \in DocumentedExc
        \/ \E i \in 1..Len(r.bases) : r.bases[i] \in {"SnmpError", "OSError", "ValueError"}
        \/ (r.op = "get_many" /\ r.exc = "RuntimeError")    \* documented for get_many

BadIdx(recs, G(_)) == { i \in 1..Len(recs) : ~G(recs[i]) }
Some(s) == IF s = {} THEN <<>> ELSE LET a == CHOOSE x \in s : TRUE IN <<a>>

Batch(kind, G(_)) ==
  /\ l <= Len(Rec) /\ Rec[l].ev = kind /\ l' = l + 1
  /\ LET bad == BadIdx(Rec[l].recs, G) IN
     IF bad = {} THEN UNCHANGED fails
     ELSE /\ PrintT(ToJson([badrecs |-> [event |-> l, n |-> Cardinality(bad),
                                         first |-> {i \in bad : Cardinality({j \in bad : j < i}) < 40}]]))
          /\ fails' = Append(fails, l)

(* C16 through the API: the same value element x sent inside a varbind, alone and followed by other octets (inside the varbind, after
   the value).  r.alone / r.followed = projections of what the call returned (a value, or the name of the exception).  Whatever the
   library makes of octets after a varbind's value (it may refuse them), it never returns a DIFFERENT value because of them. *)
ApiExtGood(r) == (r.alone.k = "value" /\ r.followed.k = "value") => r.alone.v = r.followed.v

TNext == /\ \/ Batch("IntBatch", IntGood) \/ Batch("OidBatch", OidGood) \/ Batch("MsgBatch", MsgGood)
            \/ Batch("ExtBatch", ExtGood) \/ Batch("TotBatch", TotGood)
            \/ Batch("MsgExtBatch", MsgExtGood) \/ Batch("ApiBatch", ApiGood) \/ Batch("ApiExtBatch", ApiExtGood)
         /\ (l' = Len(Rec) + 1) => PrintT(ToJson([fails |-> fails', nfails |-> Len(fails')]))
TSpec == TInit /\ [][TNext]_tvars

TraceAccepted ==
  LET n == TLCGet("stats").diameter - 1 IN
  IF n = Len(Rec) THEN PrintT(ToJson([accepted |-> n]))
  ELSE PrintT(ToJson([rejected_at |-> n + 1, event |-> [ev |-> Rec[n + 1].ev]])) /\ FALSE
=============================================================================
