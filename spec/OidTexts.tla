------------------------------ MODULE OidTexts ------------------------------
(***************************************************************************)
(* C08: dotted-decimal strings from a token grammar, with the verdict of   *)
(* BER!OidFromText.  TLC enumerates the strings, checks at design level    *)
(* that print(parse(s)) = s for every accepted canonical string and that   *)
(* the encoding is canonical X.690, and prints one JSON line per string.   *)
(***************************************************************************)
EXTENDS BER, Json, FiniteSets

CONSTANT Depth          \* exhaustive over 1..Depth tokens

T(s) == s
Tokens == { <<48>>, <<49>>, <<50>>, <<51>>, <<51, 57>>, <<52, 48>>, <<49, 50, 55>>, <<49, 50, 56>>,
            <<49, 54, 51, 56, 51>>, <<49, 54, 51, 56, 52>>, <<50, 48, 57, 55, 49, 53, 49>>, <<50, 48, 57, 55, 49, 53, 50>>,
            <<50, 54, 56, 52, 51, 53, 52, 53, 53>>, <<50, 54, 56, 52, 51, 53, 52, 53, 54>>,
            <<52, 50, 57, 52, 57, 54, 55, 50, 57, 53>>, <<52, 50, 57, 52, 57, 54, 55, 50, 57, 54>>,
            <<57, 57, 57, 57, 57, 57, 57, 57, 57, 57, 57>>,
            <<>>, <<48, 48>>, <<48, 49>>, <<45, 49>>, <<43, 49>>, <<32, 49>>, <<49, 32>>, <<97>>, <<49, 97>> }
\* "0","1","2","3","39","40","127","128","16383","16384","2097151","2097152","268435455","268435456",
\* "4294967295","4294967296","99999999999","","00","01","-1","+1"," 1","1 ","a","1a"
Good == { <<48>>, <<49>>, <<50>>, <<51, 57>>, <<49, 50, 56>>, <<52, 50, 57, 52, 57, 54, 55, 50, 57, 53>> }

TokSeqs == UNION { [1..n -> Tokens] : n \in 1..Depth }
Strings1 == { Join(ts, 46) : ts \in TokSeqs }
(* one bad (or boundary) token at each position of a valid 5-arc OID *)
ValidArcs == << <<49>>, <<51>>, <<54>>, <<49>>, <<50>> >>
Strings2 == { Join([ValidArcs EXCEPT ![i] = t], 46) : i \in 1..5, t \in Tokens }
(* dots *)
Strings3 == { <<46>> \o Join(ValidArcs, 46), Join(ValidArcs, 46) \o <<46>>, <<49, 46, 46, 51>>, <<46>>, <<46, 46>>, <<49, 46, 51, 46, 46, 54>> }
(* long OIDs: n arcs *)
LongOid(n) == Join([i \in 1..n |-> IF i = 1 THEN <<49>> ELSE IF i = 2 THEN <<51>> ELSE DecText(<<i % 100>>, 256)], 46)
Strings4 == { LongOid(n) : n \in {2, 64, 127, 128, 129} }
(* first/second arc limits with a third arc *)
Strings5 == { Join(<<a, b, <<55>>>>, 46) : a \in {<<48>>, <<49>>, <<50>>, <<51>>}, b \in {<<48>>, <<51, 57>>, <<52, 48>>, <<49, 55, 53>>, <<52, 50, 57, 52, 57, 54, 55, 50, 57, 53>>} }
Strings == Strings1 \cup Strings2 \cup Strings3 \cup Strings4 \cup Strings5

Canon(s) == OidFromText(s).c = Accept
(* design-level laws of the specification itself (C08 / C15) *)
ASSUME \A s \in Strings : Canon(s) =>
          LET r == OidFromText(s)  t == OidText(r.content) IN
          /\ t.c = Accept                      \* the encoding is canonical X.690 (minimal sub-identifiers)
          /\ t.text = s                        \* print(parse(s)) = s
ASSUME \A s \in Strings : LET r == OidFromText(s) IN
          PrintT(ToJson([s |-> s, cls |-> r.c, content |-> r.content]))
ASSUME PrintT(ToJson([nstrings |-> Cardinality(Strings)]))
=============================================================================
