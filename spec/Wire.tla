-------------------------------- MODULE Wire --------------------------------
(***************************************************************************)
(* What the API promises about octets on the wire and about results:       *)
(*   ExpectedRequest  - C03 / C08 / C15: what a call must put on the wire  *)
(*   ToPython         - C02 / C05 / C06 / C07: what a matching reply must  *)
(*                      turn into for the caller (transcription of the     *)
(*                      documented behaviour of src/snmp/op/*.rs, with the *)
(*                      REQUIRED stop / monotonicity rules of C06)         *)
(* Python results are compared in the tagged canonical projection of the   *)
(* trace recorder (BER!PyMatches).                                         *)
(***************************************************************************)
EXTENDS SNMP

PduTypeOf(op) == IF op \in {"get", "get_many", "refresh"} THEN PduGet
                 ELSE IF op = "getnext" THEN PduGetNext
                 ELSE PduGetBulk

MaxReqId == <<127, 255, 255, 255>>
ReqIdInRange(v) == ~v.neg /\ Cmp(v.mag, MaxReqId) <= 0

(* names: sequence of expected OID content octets; maxrep: signed *)
PduMatchesCall(pdu, op, names, maxrep) ==
  /\ pdu.ptype = PduTypeOf(op)
  /\ ReqIdInRange(pdu.reqid)
  /\ pdu.f2 = Zero                                                  \* error-status / non-repeaters = 0
  /\ pdu.f3 = (IF op = "getbulk" THEN maxrep ELSE Zero)             \* error-index = 0 / max-repetitions
  /\ Len(pdu.vbs) = Len(names)
  /\ \A i \in 1..Len(names) : pdu.vbs[i].name = names[i] /\ pdu.vbs[i].val.vt = "null"

(***************************************************************************)
(* Subtree containment and order on OID content octets.                    *)
(* For canonical (minimal) encodings byte-prefix <=> arc-prefix; the spec  *)
(* uses arcs so that it does not inherit the implementation's shortcut.    *)
(***************************************************************************)
SubsOf(content) == SubIds(content, 1, <<>>, <<>>).subs
NormSubs(content) == LET s == SubsOf(content) IN [i \in 1..Len(s) |-> StripLZ(s[i])]
InSubtree(base, name) == IsPrefixSeq(NormSubs(base), NormSubs(name))
RECURSIVE SubsLess(_, _)
SubsLess(a, b) == IF a = <<>> THEN b # <<>>
                  ELSE IF b = <<>> THEN FALSE
                  ELSE LET c == Cmp(a[1], b[1]) IN
                       IF c < 0 THEN TRUE ELSE IF c > 0 THEN FALSE ELSE SubsLess(Tail(a), Tail(b))
OidLess(a, b) == SubsLess(NormSubs(a), NormSubs(b))

(***************************************************************************)
(* ToPython.  Outcomes:                                                    *)
(*   [k |-> "value", ...]   [k |-> "none"]   [k |-> "exc", cls |-> C]      *)
(* cls is a CLASS OF ACCEPTABLE EXCEPTIONS:                                *)
(*   "NoSuchInstance" | "SnmpAuthError" | "SnmpError" (any member of the   *)
(*   family) | "Stop" (StopIteration / StopAsyncIteration)                 *)
(***************************************************************************)
ExcR(cls) == [k |-> "exc", cls |-> cls]

GetResult(pdu) ==
  IF pdu.ptype = PduReport THEN ExcR("SnmpAuthError")
  ELSE IF pdu.ptype # PduResponse THEN ExcR("SnmpError")
  ELSE IF Len(pdu.vbs) = 0 THEN [k |-> "none"]
  ELSE IF Len(pdu.vbs) > 1 THEN ExcR("SnmpError")
  ELSE LET val == pdu.vbs[1].val IN
       IF IsException(val) THEN ExcR("NoSuchInstance")
       ELSE IF val.vt = "null" THEN [k |-> "none"]
       ELSE [k |-> "value", val |-> val]

(* indices of the varbinds that carry real values *)
DataIdx(pdu) == { i \in 1..Len(pdu.vbs) : IsData(pdu.vbs[i].val) }

GetManyResult(pdu) ==
  IF pdu.ptype = PduReport THEN ExcR("SnmpAuthError")
  ELSE IF pdu.ptype # PduResponse THEN ExcR("SnmpError")
  ELSE [k |-> "dict", pdu |-> pdu]

(* py is a projected dict: [t |-> "dict", items |-> <<<<key, value>>, ...>>].  C07: exactly the
   varbinds that carry real values, keyed by dotted OID (a duplicated name keeps one of its values). *)
DictMatches(pdu, py, interp) ==
  /\ py.t = "dict"
  /\ \A i \in DataIdx(pdu) : \E j \in 1..Len(py.items) : py.items[j][1] = PyStr(pdu.vbs[i].text)
  /\ \A j \in 1..Len(py.items) :
        \E i \in DataIdx(pdu) : /\ py.items[j][1] = PyStr(pdu.vbs[i].text)
                                /\ PyMatches(pdu.vbs[i].val, py.items[j][2], interp)
  /\ \A j, k \in 1..Len(py.items) : j # k => py.items[j][1] # py.items[k][1]

(***************************************************************************)
(* One GETNEXT step (C05/C06).  it = [start, last] (OID content octets;    *)
(* last = the OID most recently accepted, initially the base).             *)
(* Result: [k |-> "yield", vb |-> varbind] or "stop" or exception class.   *)
(* If the very first reply names the base itself both "yield" and "stop"   *)
(* satisfy C06 (DESIGN.md A.2): k = "yield-or-stop".                       *)
(***************************************************************************)
Acceptable(it, vb) == /\ InSubtree(it.start, vb.name) /\ OidLess(it.last, vb.name)
BaseItself(it, vb) == it.last = it.start /\ NormSubs(vb.name) = NormSubs(it.start)

GetNextResult(pdu, it) ==
  IF pdu.ptype = PduReport THEN ExcR("SnmpAuthError")
  ELSE IF pdu.ptype # PduResponse THEN ExcR("SnmpError")
  ELSE IF Len(pdu.vbs) = 0 THEN ExcR("Stop")
  ELSE IF Len(pdu.vbs) > 1 THEN ExcR("SnmpError")
  ELSE LET vb == pdu.vbs[1] IN
       IF ~IsData(vb.val) THEN ExcR("Stop")                      \* NULL / endOfMibView / noSuch*
       ELSE IF BaseItself(it, vb) THEN [k |-> "yield-or-stop", vb |-> vb]
       ELSE IF Acceptable(it, vb) THEN [k |-> "yield", vb |-> vb]
       ELSE ExcR("Stop")

(* One GETBULK reply: the pairs to yield, in order, and whether the walk must stop afterwards. *)
RECURSIVE BulkScan(_, _, _, _)
BulkScan(vbs, i, it, acc) ==
  IF i > Len(vbs) THEN [yield |-> acc, stop |-> FALSE, last |-> it.last]
  ELSE LET vb == vbs[i] IN
       IF ~IsData(vb.val) THEN BulkScan(vbs, i + 1, it, acc)
       ELSE IF Acceptable(it, vb) THEN BulkScan(vbs, i + 1, [it EXCEPT !.last = vb.name], Append(acc, vb))
       ELSE [yield |-> acc, stop |-> TRUE, last |-> it.last]

GetBulkResult(pdu, it) ==
  IF pdu.ptype = PduReport THEN ExcR("SnmpAuthError")
  ELSE IF pdu.ptype # PduResponse THEN ExcR("SnmpError")
  ELSE LET r == BulkScan(pdu.vbs, 1, it, <<>>) IN
       [k |-> "bulk", yield |-> r.yield, stop |-> r.stop \/ r.yield = <<>>, last |-> r.last]

PairMatches(vb, py, interp) ==
  /\ py.t = "tuple" /\ Len(py.v) = 2
  /\ py.v[1] = PyStr(vb.text)
  /\ PyMatches(vb.val, py.v[2], interp)

(* exception-class membership: name = Python class name, fam = names of its bases (recorded by the harness) *)
ExcIn(cls, name, bases) ==
  IF cls = "Stop" THEN name \in {"StopIteration", "StopAsyncIteration"}
  ELSE IF cls = "SnmpError" THEN name = "SnmpError" \/ \E i \in 1..Len(bases) : bases[i] = "SnmpError"
  ELSE name = cls
=============================================================================
