------------------------------- MODULE Values -------------------------------
(***************************************************************************)
(* Generator of boundary encodings of every SNMP value type (C02, C16):    *)
(* TLC enumerates the corpus as a constant set and prints one JSON line    *)
(* per element {vt, tlv, cls}; cls is BER!ValueOf's verdict so that only   *)
(* the driver-independent specification decides what is well-formed.       *)
(***************************************************************************)
EXTENDS BER, Json, FiniteSets

Leads == {0, 1, 127, 128, 129, 254, 255}
Body(k, n) ==   \* n octets following the lead, pattern k
  IF k = 0 THEN Fill(n, 0)
  ELSE IF k = 1 THEN Fill(n, 255)
  ELSE IF k = 2 THEN (IF n = 0 THEN <<>> ELSE <<128>> \o Fill(n - 1, 0))
  ELSE IF k = 3 THEN (IF n = 0 THEN <<>> ELSE <<127>> \o Fill(n - 1, 255))
  ELSE [i \in 1..n |-> i]
Contents(maxLen) == { <<l>> \o Body(k, n) : l \in Leads, k \in 0..4, n \in 0..(maxLen - 1) }

TLVs(id, cs) == { MkTLV(id, c) : c \in cs }

\* (the empty contents too: a zero-length INTEGER has no octet of its own to take a sign from)
IntTLVs == TLVs(2, Contents(8) \cup {<<>>})
U32TLVs == UNION { TLVs(id, Contents(5) \cup {<<>>}) : id \in {65, 66, 67, 71} }
U64TLVs == TLVs(70, Contents(9) \cup {<<>>})
StrLens == {0, 1, 2, 127, 128, 255, 256, 1000}
StrBody(n, k) == [i \in 1..n |-> IF k = 0 THEN 0 ELSE IF k = 1 THEN 255 ELSE (i * 7 + k) % 256]
StrTLVs == UNION { { MkTLV(id, StrBody(n, k)) : n \in StrLens, k \in 0..3 } : id \in {4, 7, 68} }
IpTLVs == { MkTLV(64, <<a, b, 0, 255>>) : a \in {0, 10, 127, 255}, b \in {0, 1, 255} }
         \cup { MkTLV(64, Fill(n, 1)) : n \in {0, 3, 5} }
BoolTLVs == { MkTLV(1, <<x>>) : x \in {0, 1, 128, 255} } \cup { MkTLV(1, <<>>), MkTLV(1, <<1, 1>>) }
NullTLVs == { MkTLV(5, <<>>), MkTLV(5, <<0>>) }
ExcTLVs == { MkTLV(id, <<>>) : id \in {128, 129, 130} }

(* OID values / names: boundary arcs in first / middle / last position *)
ArcDigits == { <<0>>, <<1>>, <<39>>, <<127>>, <<1, 0>>, <<127, 127>>, <<1, 0, 0>>, <<127, 127, 127>>, <<1, 0, 0, 0>>,
               <<127, 127, 127, 127>>, <<1, 0, 0, 0, 0>>, <<15, 127, 127, 127, 127>> }   \* ... 2^28, 2^32-1
OidContents ==
  { <<43>> \o SubEnc(a) : a \in ArcDigits }
  \cup { <<43>> \o SubEnc(a) \o <<6, 1>> : a \in ArcDigits }
  \cup { <<43, 6>> \o SubEnc(a) \o SubEnc(b) : a \in {<<127>>, <<1, 0>>, <<15, 127, 127, 127, 127>>}, b \in ArcDigits }
  \cup { <<f>> \o <<5>> : f \in {0, 1, 39, 40, 79, 80, 119} }
  \cup { <<43, 128, 1>>, <<43, 6, 129>>, <<>>, <<43>>, <<43, 16, 127, 127, 127, 127>> }   \* non-minimal, unterminated, empty, 2^32
OidTLVs == TLVs(6, OidContents)

(* REAL *)
Txt(s) == s   \* sequences of char codes are written literally below
RealContents ==
  { <<>>, <<64>>, <<65>>, <<66>>, <<67>>, <<68>>, <<64, 0>> }
  \cup { <<1>> \o t : t \in { <<52, 53, 54>>, <<45, 55>>, <<48>>, <<32, 49, 50>> } }                         \* NR1 "456" "-7" "0" " 12"
  \cup { <<2>> \o t : t \in { <<52, 53, 54, 46, 55>>, <<45, 48, 46, 53>>, <<49, 46>> } }                     \* NR2 "456.7" "-0.5" "1."
  \cup { <<3>> \o t : t \in { <<52, 53, 54, 55, 69, 45, 49>>, <<49, 46, 53, 69, 51>>, <<45, 49, 69, 43, 50>>, <<49, 101, 51, 48, 56>> } }  \* NR3
  \cup { <<4, 49>>, <<1>>, <<3, 120>> }
  \cup { <<128 + 64 * s + 16 * b + 4 * f + 0, e, m>> : s \in {0, 1}, b \in {0, 1, 2}, f \in {0, 1, 3}, e \in {0, 1, 255, 128}, m \in {1, 3, 255} }
  \cup { <<128 + 1, e1, e2, 1, 1>> : e1 \in {0, 255, 3}, e2 \in {0, 200} }                                   \* 2-octet exponent
  \cup { <<128 + 2, 0, 0, 5, 9>>, <<128 + 2, 255, 255, 251, 9>> }                                            \* 3-octet exponent
  \cup { <<128 + 3, 1, 4, 7>>, <<128 + 3, 2, 0, 4, 7>>, <<128 + 3, 0, 7>>, <<128 + 3>> }                     \* explicit exponent length
  \* every exponent format x exponent sign x sign x base, small mantissa (the exponent field is where formats differ)
  \cup { <<128 + 64 * s + 16 * b + 0>> \o e \o <<5>> : s \in {0, 1}, b \in {0, 1, 2}, e \in {<<3>>, <<253>>} }
  \cup { <<128 + 64 * s + 16 * b + 1>> \o e \o <<5>> : s \in {0, 1}, b \in {0, 1, 2}, e \in {<<0, 3>>, <<255, 253>>, <<1, 0>>, <<254, 0>>} }
  \cup { <<128 + 64 * s + 16 * b + 2>> \o e \o <<5>> : s \in {0, 1}, b \in {0, 1, 2}, e \in {<<0, 0, 3>>, <<255, 255, 253>>} }
  \cup { <<128 + 64 * s + 16 * b + 3, Len(e)>> \o e \o <<5>> : s \in {0, 1}, b \in {0, 1, 2},
              e \in {<<3>>, <<253>>, <<0, 3>>, <<255, 253>>, <<0, 0, 0, 3>>, <<255, 255, 255, 253>>, <<254, 12>>} }
  \cup { <<128, 0, 1, 255, 255, 255, 255, 255, 255, 255>>, <<128, 52, 31, 255, 255, 255, 255, 255, 255>>,     \* >53-bit mantissa, 2^52 scale
         <<128 + 48, 0, 1>>, <<128, 0>>, <<128>> }                                                           \* reserved base, no mantissa
RealTLVs == TLVs(9, RealContents)

Other == { MkTLV(3, <<0, 255>>), MkTLV(36, <<4, 1, 65>>), MkTLV(69, <<1>>), MkTLV(131, <<>>), MkTLV(192, <<>>), MkTLV(48, <<5, 0>>) }

Corpus == IntTLVs \cup U32TLVs \cup U64TLVs \cup StrTLVs \cup IpTLVs \cup BoolTLVs \cup NullTLVs \cup ExcTLVs
          \cup OidTLVs \cup RealTLVs \cup Other

Describe(t) == LET h == TLVAt(t, 1, Len(t))
                   v == IF h.ok THEN ValueOf(t, h) ELSE [c |-> Reject, vt |-> "bad-header"] IN
               [vt |-> v.vt, cls |-> v.c, tlv |-> t]
ASSUME \A t \in Corpus : PrintT(ToJson(Describe(t)))
ASSUME PrintT(ToJson([corpus_size |-> Cardinality(Corpus)]))
(* names for varbinds: Accept-class OID contents only *)
ASSUME \A c \in OidContents : OidText(c).c = Accept => PrintT(ToJson([name |-> c, text |-> OidText(c).text]))
=============================================================================
