------------------------------- MODULE Replies -------------------------------
(***************************************************************************)
(* C07: the complete table of replies with 0..MaxVb varbinds over the      *)
(* value kinds that matter for the get / get_many mapping, two names       *)
(* (duplicates included), and the PDU types a reply may carry.  For each   *)
(* the required result class is computed with Wire!GetResult /             *)
(* GetManyResult on the ABSTRACT reply, so the table can be read (and is   *)
(* checked for totality) without any octets.                               *)
(***************************************************************************)
EXTENDS Wire, Json, FiniteSets

CONSTANT MaxVb
Kinds == {"int", "octets", "null", "noSuchObject", "noSuchInstance", "endOfMibView"}
Names == {"a", "b"}
VbLists == UNION { [1..n -> Names \X Kinds] : n \in 0..MaxVb }
PduTypes == {PduResponse, PduReport, PduGet}

AbsVal(k) == IF k = "int" THEN [vt |-> "int", v |-> One, c |-> Accept]
             ELSE IF k = "octets" THEN [vt |-> "octets", v |-> <<120>>, c |-> Accept]
             ELSE [vt |-> k, c |-> Accept]
AbsPdu(t, l) == [ptype |-> t, reqid |-> One, f2 |-> Zero, f3 |-> Zero,
                 vbs |-> [i \in 1..Len(l) |-> [name |-> <<43, IF l[i][1] = "a" THEN 1 ELSE 2>>,
                                                text |-> <<49, 46, 51, 46, IF l[i][1] = "a" THEN 49 ELSE 50>>,
                                                val |-> AbsVal(l[i][2])]]]

GetClass(t, l) == LET r == GetResult(AbsPdu(t, l)) IN
                  IF r.k = "exc" THEN r.cls ELSE r.k
ManyClass(t, l) == LET r == GetManyResult(AbsPdu(t, l)) IN
                   IF r.k = "exc" THEN r.cls ELSE "dict"

(* design-level sanity of the mapping (C07), evaluated by TLC over the whole table *)
ASSUME \A t \in PduTypes, l \in VbLists :
         /\ GetClass(t, l) \in {"none", "value", "NoSuchInstance", "SnmpError", "SnmpAuthError"}
         /\ (t = PduResponse /\ Len(l) = 0) => GetClass(t, l) = "none"
         /\ (t = PduResponse /\ Len(l) > 1) => GetClass(t, l) = "SnmpError"
         /\ (t = PduResponse /\ Len(l) = 1 /\ l[1][2] \in {"noSuchObject", "noSuchInstance", "endOfMibView"}) => GetClass(t, l) = "NoSuchInstance"
         /\ t = PduReport => (GetClass(t, l) = "SnmpAuthError" /\ ManyClass(t, l) = "SnmpAuthError")
         /\ t = PduResponse => ManyClass(t, l) = "dict"
ASSUME \A t \in PduTypes, l \in VbLists :
         PrintT(ToJson([ptype |-> t, vbs |-> [i \in 1..Len(l) |-> [name |-> l[i][1], kind |-> l[i][2]]],
                        get |-> GetClass(t, l), many |-> ManyClass(t, l)]))
ASSUME PrintT(ToJson([table_size |-> Cardinality(VbLists) * Cardinality(PduTypes)]))
=============================================================================
