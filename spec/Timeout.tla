------------------------------ MODULE Timeout ------------------------------
(***************************************************************************)
(* One blocking call under explicit discrete time (C18).                   *)
(*   sync client : SO_RCVTIMEO is set once on the socket                   *)
(*                 (src/socket/snmpsocket.rs:49-57); the receive loop      *)
(*                 re-enters recv() after every skipped datagram           *)
(*                 (snmpsocket.rs:133-151)                                 *)
(*   async client: one wait_for() around the whole reader loop             *)
(*                 (async_client/client.py:207-234)                        *)
(* The environment fixes, at the start, an arrival schedule: non-matching  *)
(* but well-formed datagrams ("stray") at chosen ticks and optionally the  *)
(* matching reply at some tick.  Processing is instantaneous; time only    *)
(* advances (Tick) when nothing is due.                                    *)
(* DEV_RearmTimeoutOnSkip reproduces the pinned sync client, whose timer   *)
(* restarts with every recv().                                             *)
(***************************************************************************)
EXTENDS Naturals, FiniteSets, Sequences, TLC

CONSTANTS T,                 \* timeout in ticks
          Horizon,           \* arrivals are scheduled in 1..Horizon; time runs to Horizon + T + 1
          MaxStrays,
          DEV_RearmTimeoutOnSkip

VARIABLES now, armedAt, pending, result, doneAt, strays, match, inbox
vars == <<now, armedAt, pending, result, doneAt, strays, match, inbox>>

NoMatch == 0
Init == /\ now = 0 /\ armedAt = 0 /\ pending = TRUE /\ result = "none" /\ doneAt = 0 /\ inbox = <<>>
        /\ strays \in {S \in SUBSET (1..Horizon) : Cardinality(S) <= MaxStrays}
        /\ match \in {NoMatch} \cup (1..Horizon)

Due == (now \in strays) \/ (match = now /\ match # NoMatch)
Deadline == (IF DEV_RearmTimeoutOnSkip THEN armedAt ELSE 0) + T
Expired == now >= Deadline

Arrive ==            \* datagrams scheduled for this tick reach the socket (a stray before the match if both)
  /\ Due
  /\ inbox' = inbox \o (IF now \in strays THEN <<"stray">> ELSE <<>>) \o (IF match = now /\ match # NoMatch THEN <<"match">> ELSE <<>>)
  /\ strays' = strays \ {now} /\ match' = IF match = now THEN NoMatch ELSE match
  /\ UNCHANGED <<now, armedAt, pending, result, doneAt>>

RecvOne ==           \* one loop iteration (only while the call is still waiting and its timer has not fired)
  /\ pending /\ inbox # <<>> /\ ~Expired
  /\ inbox' = Tail(inbox)
  /\ IF Head(inbox) = "match"
       THEN pending' = FALSE /\ result' = "delivered" /\ doneAt' = now /\ UNCHANGED armedAt
       ELSE armedAt' = now /\ UNCHANGED <<pending, result, doneAt>>           \* skipped: recv() is entered again
  /\ UNCHANGED <<now, strays, match>>

Expire ==
  /\ pending /\ Expired
  /\ pending' = FALSE /\ result' = "TimeoutError" /\ doneAt' = now
  /\ UNCHANGED <<now, armedAt, strays, match, inbox>>

Tick ==
  /\ ~Due /\ ~(pending /\ (Expired \/ inbox # <<>>))
  /\ now < Horizon + 3 * T
  /\ now' = now + 1 /\ UNCHANGED <<armedAt, pending, result, doneAt, strays, match, inbox>>

Next == Arrive \/ RecvOne \/ Expire \/ Tick
Spec == Init /\ [][Next]_vars

(* C18 *)
ReturnsByDeadline == pending => now <= T
FinishedInTime == ~pending => doneAt <= T
(* a matching reply that arrives within the timeout is delivered *)
MatchInTimeDelivered == [][(pending /\ inbox # <<>> /\ Head(inbox) = "match" /\ now < T) => result' = "delivered"]_vars
=============================================================================
