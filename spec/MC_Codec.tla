------------------------------ MODULE MC_Codec ------------------------------
(***************************************************************************)
(* Design-level laws of the codec specification itself, evaluated by TLC   *)
(* over bounded universes.  They validate the ORACLE used by every trace   *)
(* specification: the encoder/decoder pairs of Octets/BER are mutual       *)
(* inverses and the encoder is minimal (C15), lengths round-trip (C16),    *)
(* and byte-prefix <=> arc-prefix on canonical OIDs (C05's subtree test).  *)
(***************************************************************************)
EXTENDS Wire, FiniteSets, Json

CONSTANT MaxOctets      \* signed values with magnitudes of up to MaxOctets octets

Mags == UNION { [1..n -> 0..255] : n \in 0..MaxOctets }
Nat256 == { m \in Mags : m = <<>> \/ m[1] # 0 }
Signed == { [neg |-> FALSE, mag |-> m] : m \in Nat256 } \cup { [neg |-> TRUE, mag |-> m] : m \in Nat256 \ {<<>>} }

ASSUME \A v \in Signed : /\ SignedOf(SignedEnc(v)) = v
                         /\ SignedMinimal(SignedEnc(v))
                         /\ IntOf(SignedEnc(v)).c = Accept
(* any content is either minimal, or shorter content denotes the same number *)
ASSUME \A c \in (Mags \ {<<>>}) : SignedMinimal(c) <=> SignedEnc(SignedOf(c)) = c

Lens == 0..300 \cup {65535, 4080}
ASSUME \A n \in Lens : LET b == <<4>> \o EncLen(n) \o Fill(n, 7)
                           h == TLVAt(b, 1, Len(b)) IN
                       h.ok /\ h.min /\ h.cl = n /\ h.nx = Len(b) + 1
(* a TLV followed by arbitrary octets has the same extent (C16) *)
ASSUME \A n \in {0, 1, 127, 128, 255, 256}, s \in {<<>>, <<0>>, <<255, 255>>, <<48, 130, 255, 255>>} :
          LET b == <<4>> \o EncLen(n) \o Fill(n, 7) IN
          TLVAt(b \o s, 1, Len(b) + Len(s)).nx = Len(b) + 1
(* truncation anywhere is detected *)
ASSUME \A n \in {0, 1, 127, 128, 300}, k \in 1..4 :
          LET b == <<4>> \o EncLen(n) \o Fill(n, 7) IN
          k <= Len(b) => ~TLVAt(SubSeq(b, 1, Len(b) - k), 1, Len(b) - k).ok

(* OIDs over a universe chosen for the hazards of the byte-prefix test *)
Arcs == { <<0>>, <<1>>, <<127>>, <<1, 0>>, <<1, 1>>, <<127, 127>>, <<1, 0, 0>> }      \* 0 1 127 128 129 16383 16384
OidsN(n) == { <<43>> \o Flatten([i \in 1..n |-> SubEnc(f[i])]) : f \in [1..n -> Arcs] }
Oids == OidsN(0) \cup OidsN(1) \cup OidsN(2)
ASSUME \A a \in Oids, b \in Oids : IsPrefixSeq(a, b) <=> InSubtree(a, b)
ASSUME \A a \in Oids, b \in Oids : (OidLess(a, b) \/ OidLess(b, a) \/ a = b) /\ ~(OidLess(a, b) /\ OidLess(b, a))
ASSUME \A a \in Oids : OidText(a).c = Accept /\ OidFromText(OidText(a).text).content = a
ASSUME PrintT(ToJson([laws |-> "hold", signed |-> Cardinality(Signed), oids |-> Cardinality(Oids)]))
=============================================================================
