SPECIFICATION Spec
CONSTANTS
  Ver = "v2c"
  HasAuth = FALSE
  HasPriv = FALSE
  MaxReq = 2
  MaxInbox = 2
  MaxInject = 3
  DEV_NoIncomingMacCheck = FALSE
VIEW View
INVARIANTS TypeOK DeliverOnlyCurrent AcceptOnlyAuthenticated
PROPERTIES SkipKeepsWaiting UndecodableEndsCall LaterMatchDelivered
CHECK_DEADLOCK FALSE
