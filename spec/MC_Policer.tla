----------------------------- MODULE MC_Policer -----------------------------
EXTENDS Policer, Json
(* Export of every transition of the history-free graph: one JSON line each. *)
ExportNext ==
  \/ /\ First /\ PrintT(ToJson([from |-> [started |-> started, off |-> off], act |-> "First", gap |-> 0,
                                  to |-> [started |-> TRUE, off |-> 0], delay |-> 0, adv |-> 0]))
  \/ \E g \in 0..MaxGap :
       /\ Call(g)
       /\ PrintT(ToJson([from |-> [started |-> started, off |-> off], act |-> "Call", gap |-> g,
                         to |-> [started |-> started', off |-> off'], delay |-> lastDelay', adv |-> lastAdv']))
ExportSpec == Init /\ [][ExportNext]_vars
ExportView == <<started, off>>
(* constructor table *)
RpsSamples == {-5, -1, 0, 1, 2, 3, 7, 10, 1000, 999999999, 1000000000, 1000000001, 2000000000}
ConstructTable == [r \in RpsSamples |-> Construct(r)]
ASSUME PrintT(ToJson([kind |-> "construct", table |-> [r \in RpsSamples |-> [rps |-> r, res |-> Construct(r)]]]))
=============================================================================
