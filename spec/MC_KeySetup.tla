----------------------------- MODULE MC_KeySetup -----------------------------
(* the complete dispatch table, printed for replay, with design-level sanity checks *)
EXTENDS KeySetup, Json, FiniteSets
Codes == {0, 1, 2, 3, 5, 63, 64, 65, 66, 67, 128, 129, 130, 131, 192, 193, 194, 255}
KeyLens == {0, 1, 8, 15, 16, 17, 19, 20, 21, 32, 64}
Table == { <<a, al, p, pl>> : a \in Codes, al \in KeyLens, p \in Codes, pl \in KeyLens }
ASSUME \A t \in Table : InstallVerdict(t[1], t[2], t[3], t[4]) \in {"accept", "refuse", "either"}
(* a refusal never depends on the privacy side when the authentication side is already refused, etc. *)
ASSUME \A t \in Table : (AlgOf(t[1]) \notin {0, 1, 2}) => InstallVerdict(t[1], t[2], t[3], t[4]) = "refuse"
ASSUME \A t \in Table : (AlgOf(t[1]) = 0 /\ AlgOf(t[3]) \in {1, 2}) => InstallVerdict(t[1], t[2], t[3], t[4]) = "refuse"
ASSUME \A t \in Table : PrintT(ToJson([acode |-> t[1], akeylen |-> t[2], pcode |-> t[3], pkeylen |-> t[4],
                                       verdict |-> InstallVerdict(t[1], t[2], t[3], t[4])]))
ASSUME PrintT(ToJson([table |-> Cardinality(Table)]))
=============================================================================
