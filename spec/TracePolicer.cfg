SPECIFICATION TSpec
CONSTANTS K = 8
POSTCONDITION TraceAccepted
CHECK_DEADLOCK FALSE
