----------------------------- MODULE MC_Session -----------------------------
EXTENDS Session, Json
(* one JSON line per completed behaviour (for replay against the real sockets) *)
ExportDone == (Done /\ hist # <<>>) => PrintT(ToJson([script |-> hist]))
DoneConstraint == TRUE
=============================================================================
