
