-------------------------------- MODULE Pool --------------------------------
(***************************************************************************)
(* The process-wide buffer pool shared by every session (src/buf/pool.rs)  *)
(* and the calls that use it (src/socket/snmpsocket.rs:113-152):           *)
(*   a send or a receive ACQUIRES a buffer (a pooled one if any, else a    *)
(*   new one), uses it, and RELEASES it when the handle is dropped - on    *)
(*   success and on every error path.  C03 needs every message to start    *)
(*   in an EMPTY buffer (the outer SEQUENCE length is buf.len()).          *)
(* A behaviour is a history of calls on several sessions, each with a      *)
(* fate; histories are exported and replayed on real sockets (C03).        *)
(***************************************************************************)
EXTENDS Naturals, Sequences, FiniteSets, TLC

CONSTANTS Sessions,          \* e.g. {"A", "B"}
          Ops,               \* operations a call may be
          Fates,             \* "answered" "stray-then-answered" "timeout" "decode-error" "oversize" "abandoned"
          MaxLen,
          DEV_NoResetOnDrop  \* deviation: a dropped handle returns its buffer without reset()

VARIABLES pool,      \* sequence (stack) of idle buffers, each "clean" or "dirty"
          hist,      \* calls so far
          startedClean \* did every message so far start in an empty buffer?
vars == <<pool, hist, startedClean>>

Init == pool = <<>> /\ hist = <<>> /\ startedClean = TRUE

(* one use of a buffer: acquire (pop or new), leave it with `leftover` octets, drop the handle *)
Use(leftover, msgStart) ==
  LET got == IF pool = <<>> THEN "clean" ELSE pool[Len(pool)]
      rest == IF pool = <<>> THEN <<>> ELSE SubSeq(pool, 1, Len(pool) - 1)
      back == IF DEV_NoResetOnDrop /\ leftover THEN "dirty" ELSE "clean"
  IN [pool |-> Append(rest, back), ok |-> (~msgStart \/ got = "clean")]

Call(s, o, f) ==
  /\ Len(hist) < MaxLen
  /\ LET u1 == Use(TRUE, TRUE)                                  \* send path: message built in the buffer (even partially, on oversize)
         p1 == u1.pool
         u2 == IF f \in {"oversize", "abandoned"} THEN [pool |-> p1, ok |-> TRUE]
               ELSE LET q == [pool |-> p1] IN                    \* receive path: datagram(s) read into a pooled buffer
                    LET got == IF p1 = <<>> THEN "clean" ELSE p1[Len(p1)] IN
                    [pool |-> Append(IF p1 = <<>> THEN <<>> ELSE SubSeq(p1, 1, Len(p1) - 1),
                                     IF DEV_NoResetOnDrop THEN "dirty" ELSE "clean"), ok |-> TRUE]
     IN /\ pool' = u2.pool
        /\ startedClean' = (startedClean /\ u1.ok)
  /\ hist' = Append(hist, [s |-> s, op |-> o, fate |-> f])

Next == \E s \in Sessions, o \in Ops, f \in Fates : Call(s, o, f)
Spec == Init /\ [][Next]_vars

(* C03: whatever was processed earlier - on any session - every message starts in an empty buffer *)
MessagesStartEmpty == startedClean
PoolBounded == Len(pool) <= 1            \* sequential use never needs more than one buffer
Done == Len(hist) = MaxLen
=============================================================================
