SPECIFICATION ExportSpec
CONSTANTS
  D = 4
  MaxGap = 12
  K = 0
VIEW ExportView
INVARIANTS TypeOK DelayAtMostD SlotInv
CHECK_DEADLOCK FALSE
