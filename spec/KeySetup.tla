------------------------------ MODULE KeySetup ------------------------------
(***************************************************************************)
(* C12: how key material handed to a v3 session (constructor / set_keys)   *)
(* and to the two utility functions is dispatched (src/auth/mod.rs:57-86,  *)
(* src/socket/v3.rs:61-71,97-106, src/privacy/*::as_localized, src/util.rs)*)
(* The digest computations themselves are uninterpreted terms              *)
(*   Kmaster(alg, password)        RFC 3414 A.2.1 / A.2.2 (1 MiB expansion)*)
(*   Kul(alg, master, engineId)    H(master || engineId || master)         *)
(* interpreted by hashlib through the trace's interpretation table.        *)
(*   code = algorithm (low 6 bits) | key type (high 2 bits: 0 password,    *)
(*   1 master, 2 localized, 3 undefined)                                   *)
(* Verdicts: "accept" (no exception), "refuse" (an Exception, never a      *)
(* crash), "either" (the statement is silent: e.g. a master key of the     *)
(* wrong size handed directly to the raw socket may be hashed as it is).   *)
(***************************************************************************)
EXTENDS Naturals, Sequences, TLC

AlgOf(code) == code % 64
KtOf(code) == code \div 64
KeySize(alg) == IF alg = 1 THEN 16 ELSE IF alg = 2 THEN 20 ELSE 0

(* authentication key: [v |-> verdict] *)
AuthVerdict(code, keyLen) ==
  IF AlgOf(code) \notin {0, 1, 2} THEN "refuse"                   \* unknown algorithm code
  ELSE IF AlgOf(code) = 0 THEN "accept"                            \* no authentication: key material ignored
  ELSE IF KtOf(code) = 0 THEN (IF keyLen = 0 THEN "refuse" ELSE "accept")              \* empty password
  ELSE IF KtOf(code) = 1 THEN (IF keyLen = KeySize(AlgOf(code)) THEN "accept" ELSE "either")
  ELSE IF KtOf(code) = 2 THEN (IF keyLen = KeySize(AlgOf(code)) THEN "accept" ELSE "refuse")  \* wrong-size localized key
  ELSE "refuse"                                                    \* undefined key type

(* privacy key: localised with the AUTH digest, so it needs one *)
PrivVerdict(acode, pcode, keyLen) ==
  IF AlgOf(pcode) \notin {0, 1, 2} THEN "refuse"
  ELSE IF AlgOf(pcode) = 0 THEN "accept"
  ELSE IF AlgOf(acode) \notin {1, 2} THEN "refuse"                  \* privacy without authentication
  ELSE IF KtOf(pcode) = 0 THEN (IF keyLen = 0 THEN "refuse" ELSE "accept")
  ELSE IF KtOf(pcode) = 1 THEN (IF keyLen = KeySize(AlgOf(acode)) THEN "accept" ELSE "either")
  ELSE IF KtOf(pcode) = 2 THEN (IF keyLen = KeySize(AlgOf(acode)) THEN "accept"
                                ELSE IF keyLen >= 16 /\ keyLen # KeySize(AlgOf(acode)) THEN "either" ELSE "refuse")
  ELSE "refuse"

Combine(a, p) == IF a = "refuse" \/ p = "refuse" THEN "refuse"
                 ELSE IF a = "either" \/ p = "either" THEN "either" ELSE "accept"
InstallVerdict(acode, akeyLen, pcode, pkeyLen) ==
  LET a == AuthVerdict(acode, akeyLen) IN
  IF a = "refuse" THEN "refuse" ELSE Combine(a, PrivVerdict(acode, pcode, pkeyLen))

(* utility functions get_master_key(alg, password), get_localized_key(alg, master, engine) *)
(* the algorithm argument is the code of the digest; key-type bits, if present, are ignored; with the
   "no authentication" code there is nothing to derive (the statement is silent: refused or an empty key) *)
(* Python layer (src/gufo/snmp/user.py): USM master and localized keys have the length of the AUTHENTICATION digest - the privacy
   key too; the cipher takes its 16 octets after localisation (RFC 3414 A.2, 8.1.1.1; RFC 3826 3.1.2.1).  Key material of exactly
   that length, and every password, must reach the socket unchanged.  (What the layer does with material of another length -
   it cuts / pads with zero octets - is a convenience the property does not state: left free.) *)
UserKeyOutOK(kt, key, out, authAlg) ==
  IF kt = 0 THEN out = key
  ELSE IF Len(key) = KeySize(authAlg) THEN out = key
  ELSE TRUE

MasterVerdict(alg, pwLen) == IF AlgOf(alg) \notin {0, 1, 2} THEN "refuse"
                             ELSE IF AlgOf(alg) = 0 THEN "either"
                             ELSE IF pwLen = 0 THEN "refuse" ELSE "accept"
LocalizedVerdict(alg, masterLen) == IF AlgOf(alg) \notin {0, 1, 2} THEN "refuse"
                                    ELSE IF AlgOf(alg) = 0 THEN "either"
                                    ELSE IF masterLen # KeySize(AlgOf(alg)) THEN "refuse" ELSE "accept"
=============================================================================
