---------------------------- MODULE TracePolicer ----------------------------
(***************************************************************************)
(* Trace validation of recorded RPSPolicer executions (impl -> spec).      *)
(* The judge is the PROPERTY C19, not the slot arithmetic of the pinned    *)
(* implementation: an event is accepted iff the observed delay is within   *)
(* 0..D and every window of k+1 consecutive releases (k <= K) spans more   *)
(* than (k-1)*D.  (Policer.tla shows that the pinned slot arithmetic is    *)
(* one refinement of this; another correct limiter must not be rejected.)  *)
(*   {"ev":"New","D":d}               a fresh policer with interval d      *)
(*   {"ev":"Call","gap":g,"delay":t}  g = ts - previous release (0 for the *)
(*                                    first call), t = returned timeout    *)
(*   {"ev":"Crash","exc":name}        the call raised: never acceptable    *)
(***************************************************************************)
EXTENDS Integers, Sequences, TLC, Json, IOUtils

CONSTANTS K
P == INSTANCE Policer WITH D <- 1, MaxGap <- 0, K <- K,
                            started <- FALSE, off <- 0, hist <- <<>>, lastDelay <- 0, lastAdv <- 0

Rec == ndJsonDeserialize(IOEnv.TRACE)

VARIABLES l, d, hist        \* hist: release times relative to the newest release (newest first, hist[1] = 0)
tvars == <<l, d, hist>>

TInit == l = 1 /\ d = 1 /\ hist = <<>>

IsEvent(e) == l <= Len(Rec) /\ Rec[l].ev = e /\ l' = l + 1

\* TLC integers are 32-bit: for huge intervals the window depth is reduced so that offsets fit
Kd(dd) == IF 500000000 \div dd < K THEN 500000000 \div dd ELSE K
Trunc(s) == IF Len(s) > Kd(d) + 1 THEN SubSeq(s, 1, Kd(d) + 1) ELSE s
\* offsets saturate at -Cap: (K+1)-windows only look Kd(d)*d <= 5*10^8 back, so anything further away than 10^9 is "far" whatever its exact value
Cap == 1000000000
Sub(a, x) == IF x >= Cap \/ a <= x - Cap THEN 0 - Cap ELSE a - x          \* a <= 0 <= x; never leaves the 32-bit range
Shift(s, x) == [i \in 1..Len(s) |-> Sub(s[i], x)]
SafeSum(g, t) == IF g >= Cap THEN Cap ELSE g + t                            \* t <= d <= 10^9

TNew == /\ IsEvent("New") /\ Rec[l].D >= 1
        /\ d' = Rec[l].D /\ hist' = <<>>

TCall ==
  /\ IsEvent("Call")
  /\ Rec[l].gap >= 0                            \* hypothesis of C19: asked for after the previous release
  /\ LET t == Rec[l].delay
         h == Trunc(<<0>> \o Shift(hist, SafeSum(Rec[l].gap, IF t >= 0 /\ t <= d THEN t ELSE 0))) IN
       /\ t >= 0 /\ t <= d                       \* C19: delayed by at most one interval
       /\ P!WindowOn(d, h, Kd(d))                \* C19: k+1 releases span more than (k-1)*D
       /\ hist' = h
  /\ UNCHANGED d

(* A rate-limited SESSION (sync_client/client.py, getnext.py, getbulk.py, async_client/client.py _send):
   every request that reaches the wire was preceded by its own grant from the policer.
     {"ev":"Sess"}   a fresh session with a policer      {"ev":"Grant"}  policer.get_timeout() was consulted
     {"ev":"Wire"}   a request datagram reached the agent                                             *)
TSess == IsEvent("Sess") /\ hist' = <<>> /\ d' = 0
TGrant == IsEvent("Grant") /\ hist' = <<"granted">> /\ UNCHANGED d
TWire == IsEvent("Wire") /\ hist = <<"granted">> /\ hist' = <<>> /\ UNCHANGED d      \* no request without a fresh grant

(* A long flood through a limiter configured for rps (each request asked for the moment the previous one is released), in
   microseconds:  {"ev":"Rate","D":floor(10^6/rps),"n":releases,"span":last - first release,"maxdelay":largest delay}.
   The n releases are one window of the property (k = n-1): they span more than (n-2)/rps; no request waits longer than 1/rps.
   (Short windows cannot see an interval that is a fraction of a percent too short; a long one can.) *)
TRate == /\ IsEvent("Rate")
         /\ Rec[l].span >= (Rec[l].n - 2) * Rec[l].D
         /\ Rec[l].maxdelay <= Rec[l].D + 1
         /\ UNCHANGED <<d, hist>>

TNext == TNew \/ TCall \/ TSess \/ TGrant \/ TWire \/ TRate
TSpec == TInit /\ [][TNext]_tvars

TraceAccepted ==
  LET n == TLCGet("stats").diameter - 1 IN
  IF n = Len(Rec) THEN PrintT(ToJson([accepted |-> n]))
  ELSE PrintT(ToJson([rejected_at |-> n + 1, event |-> Rec[n + 1]])) /\ FALSE
=============================================================================
