SPECIFICATION TSpec
CONSTANTS
  MaxSid = 4
  Props = {"C02","C03","C04","C05","C06","C07","C08","C09","C10","C11","C13","C14","C15","C17"}
POSTCONDITION TraceAccepted
CHECK_DEADLOCK FALSE
