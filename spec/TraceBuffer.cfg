SPECIFICATION TSpec
CONSTANTS MAX = 4080
POSTCONDITION TraceAccepted
CHECK_DEADLOCK FALSE
