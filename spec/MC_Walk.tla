------------------------------- MODULE MC_Walk -------------------------------
EXTENDS Walk, Json
St == [last |-> last, pybuf |-> pybuf, stopped |-> stopped, willStop |-> willStop]
StP == [last |-> last', pybuf |-> pybuf', stopped |-> stopped', willStop |-> willStop']
(* every transition of the (history-free) state graph, one JSON line each *)
ExportNext ==
  \/ /\ Pop /\ PrintT(ToJson([from |-> St, act |-> "pop", r |-> <<>>, to |-> StP]))
  \/ \E r \in Replies :
       /\ (BulkRound(r) \/ NextRound(r))
       /\ PrintT(ToJson([from |-> St, act |-> "reply", r |-> [i \in 1..Len(r) |-> [oid |-> r[i][1], kind |-> r[i][2]]], to |-> StP]))
ExportSpec == Init /\ [][ExportNext]_vars
ExportView == <<last, pybuf, stopped, willStop>>
=============================================================================
