----------------------------- MODULE TraceBuffer -----------------------------
(***************************************************************************)
(* Trace validation of operation sequences run on a REAL Buffer (C17).     *)
(*  BufNew                      a fresh Buffer::default()                  *)
(*  BufOp  op arg x res len free rle bookmark                              *)
(*      op in push (arg octets of value x) | push_tag_len (tag x, length   *)
(*      arg) | skip | fill (value x) | reset | set_bookmark                *)
(*      res = "ok" | "OutOfBuffer"; len / free = Buffer::len() / free()    *)
(*      after the call; rle = run-length encoding of Buffer::data() after  *)
(*      the call; bookmark = get_bookmark() right after set_bookmark       *)
(* The specification keeps the contents as runs <<octet, count>> from pos  *)
(* to MAX; octets exposed by skip and never written since are "stale"      *)
(* (-1) and match anything, every other octet must be exactly what the     *)
(* operations wrote (nothing outside the buffer is ever read or written,   *)
(* nothing is lost).  It reuses Buffer!TagLenSize and the bound checks of  *)
(* the Buffer module through its operators.                                *)
(***************************************************************************)
EXTENDS Integers, Sequences, TLC, Json, IOUtils

CONSTANT MAX
B == INSTANCE Buffer WITH MAX <- MAX, Args <- {}, pos <- 0, minW <- 0, bm <- 0, bmSet <- FALSE, placeholder <- 0, last <- 0

Rec == ndJsonDeserialize(IOEnv.TRACE)
VARIABLES l, pos, runs, fails
tvars == <<l, pos, runs, fails>>
TInit == l = 1 /\ pos = MAX /\ runs = <<>> /\ fails = <<>>

Min(a, b) == IF a < b THEN a ELSE b
RECURSIVE RunsMatch(_, _)
RunsMatch(m, o) ==
  IF m = <<>> THEN \A i \in 1..Len(o) : o[i][2] = 0
  ELSE IF o = <<>> THEN \A i \in 1..Len(m) : m[i][2] = 0
  ELSE IF m[1][2] = 0 THEN RunsMatch(Tail(m), o)
  ELSE IF o[1][2] = 0 THEN RunsMatch(m, Tail(o))
  ELSE IF m[1][1] # -1 /\ m[1][1] # o[1][1] THEN FALSE
  ELSE LET k == Min(m[1][2], o[1][2]) IN
       RunsMatch(<<<<m[1][1], m[1][2] - k>>>> \o Tail(m), <<<<o[1][1], o[1][2] - k>>>> \o Tail(o))

TagLenOctets(tag, v) == IF v < 128 THEN <<tag, v>>
                        ELSE IF v < 256 THEN <<tag, 129, v>>
                        ELSE <<tag, 130, (v \div 256) % 256, v % 256>>
AsRuns(s) == [i \in 1..Len(s) |-> <<s[i], 1>>]

(* expected effect of an operation: [res, pos, runs] *)
Effect(e) ==
  IF e.op = "push" THEN (IF pos < e.arg THEN [res |-> "OutOfBuffer", pos |-> pos, runs |-> runs]
                         ELSE [res |-> "ok", pos |-> pos - e.arg, runs |-> <<<<e.x, e.arg>>>> \o runs])
  ELSE IF e.op = "push_tag_len" THEN
       (IF pos < B!TagLenSize(e.arg) THEN [res |-> "OutOfBuffer", pos |-> pos, runs |-> runs]
        ELSE [res |-> "ok", pos |-> pos - B!TagLenSize(e.arg), runs |-> AsRuns(TagLenOctets(e.x, e.arg)) \o runs])
  ELSE IF e.op = "skip" THEN LET n == Min(e.arg, pos) IN [res |-> "ok", pos |-> pos - n, runs |-> <<<<-1, n>>>> \o runs]
  ELSE IF e.op = "fill" THEN [res |-> "ok", pos |-> pos, runs |-> <<<<e.x, MAX - pos>>>>]
  ELSE IF e.op = "reset" THEN [res |-> "ok", pos |-> MAX, runs |-> <<>>]
  ELSE [res |-> "ok", pos |-> pos, runs |-> runs]          \* set_bookmark

TNew == /\ l <= Len(Rec) /\ Rec[l].ev = "BufNew" /\ l' = l + 1
        /\ pos' = MAX /\ runs' = <<>> /\ UNCHANGED fails

TOp ==
  /\ l <= Len(Rec) /\ Rec[l].ev = "BufOp" /\ l' = l + 1
  /\ LET e == Rec[l]  x == Effect(e) IN
     /\ pos' = x.pos /\ runs' = x.runs
     /\ IF /\ e.res = x.res
           /\ e.len = MAX - x.pos /\ e.free = x.pos           \* len() + free() = capacity, in bounds
           /\ RunsMatch(x.runs, e.rle)                        \* data() is exactly what was written
           /\ e.op = "set_bookmark" => e.bookmark = e.arg      \* get_bookmark() right after set_bookmark(d) = d
        THEN UNCHANGED fails
        ELSE fails' = Append(fails, l)

TNext == /\ (TNew \/ TOp)
         /\ (l' = Len(Rec) + 1) => PrintT(ToJson([fails |-> fails', nfails |-> Len(fails')]))
TSpec == TInit /\ [][TNext]_tvars
TraceAccepted ==
  LET n == TLCGet("stats").diameter - 1 IN
  IF n = Len(Rec) THEN PrintT(ToJson([accepted |-> n]))
  ELSE PrintT(ToJson([rejected_at |-> n + 1, event |-> Rec[n + 1]])) /\ FALSE
=============================================================================
