"""Entry point of every registered check."""
import sys, os, importlib, json, traceback
sys.path.insert(0, os.path.dirname(os.path.abspath(__file__)))
from vlib.env import ToolError
from vlib import env


def main():
    if len(sys.argv) < 3:
        print("usage: check <id> <quick|thorough> | check <id> --replay <file>")
        return 2
    pid = sys.argv[1].upper()
    mode = sys.argv[2]
    os.environ.setdefault("VERIF_TIER", mode if mode in ("quick", "thorough") else "quick")
    try:
        mod = importlib.import_module("checks." + pid.lower())
    except ModuleNotFoundError as e:
        print("TOOL-ERROR: no check for %s (%s)" % (pid, e))
        return 2
    # watchdog: a check never hangs for ever (a call into the code under test that does not return would otherwise block it);
    # the limit is far above the longest measured run of the tier (quick: 2 min, thorough: 55 min)
    import threading, faulthandler
    limit = {"quick": 45 * 60, "thorough": 6 * 3600}.get(mode, 30 * 60)

    def expire():
        sys.stderr.write("TOOL-ERROR: %s %s did not finish within %d s; stacks follow\n" % (pid, mode, limit))
        faulthandler.dump_traceback(file=sys.stderr)
        print("TOOL-ERROR: watchdog: check did not finish within %d s" % limit, flush=True)
        os._exit(2)
    wd = threading.Timer(limit, expire)
    wd.daemon = True
    wd.start()
    try:
        env.build()
        if mode == "--replay":
            return mod.replay(sys.argv[3])
        return mod.run(mode)
    except ToolError as e:
        print("TOOL-ERROR: %s" % e)
        return 2
    except Exception:
        traceback.print_exc()
        print("TOOL-ERROR: harness exception")
        return 2
    except BaseException as e:  # noqa - pyo3 PanicException derives from BaseException
        if isinstance(e, (KeyboardInterrupt, SystemExit)):
            raise
        traceback.print_exc()
        print("TOOL-ERROR: a panic of the code under test escaped a driver (%s)" % type(e).__name__)
        return 2


if __name__ == "__main__":
    rc = main()
    # threads abandoned inside calls that never returned (vlib/bounded.py) would abort the interpreter's finalisation
    # ("FATAL: exception not rethrown", exit 134): run the exit handlers, then leave without finalising
    import atexit
    try:
        atexit._run_exitfuncs()
    except Exception:  # noqa
        pass
    sys.stdout.flush()
    sys.stderr.flush()
    os._exit(rc if isinstance(rc, int) else 1)
