"""Entry point of every registered check."""
import sys, os, importlib, json, traceback
sys.path.insert(0, os.path.dirname(os.path.abspath(__file__)))
from vlib.env import ToolError
from vlib import env


def main():
    if len(sys.argv) < 3:
        print("usage: check <id> <quick|thorough> | check <id> --replay <file>")
        return 2
    pid = sys.argv[1].upper()
    mode = sys.argv[2]
    os.environ.setdefault("VERIF_TIER", mode if mode in ("quick", "thorough") else "quick")
    try:
        mod = importlib.import_module("checks." + pid.lower())
    except ModuleNotFoundError as e:
        print("TOOL-ERROR: no check for %s (%s)" % (pid, e))
        return 2
    try:
        env.build()
        if mode == "--replay":
            return mod.replay(sys.argv[3])
        return mod.run(mode)
    except ToolError as e:
        print("TOOL-ERROR: %s" % e)
        return 2
    except Exception:
        traceback.print_exc()
        print("TOOL-ERROR: harness exception")
        return 2


if __name__ == "__main__":
    sys.exit(main())
