"""Session.tla behaviours replayed through the PUBLIC API (sync and async SnmpSession.get / get_many) instead of the raw
split sockets: the agent answers request k with the datagrams the behaviour injects between send k and send k+1
(the matching reply, one-field mutants, stale replies, garbage), so the receive loops of the Rust socket (sync) and
of the Python client (async: BlockingIOError -> wait for readability -> retry, under wait_for) are what is judged.
The judge is TraceSession.tla, as for the raw replay."""
import asyncio, json
from . import apidrv, scripts, agent as ag
from .project import proj, exc_info

TIMEOUT = 0.2
GAP = 0.015      # odd variants: the agent spaces the datagrams of one answer, so that the client handles them one wake-up at a time


def project(script):
    """abstract behaviour -> list (one per request) of lists of abstract datagrams injected while it is the latest request"""
    plan = []
    for a in script:
        if a["a"] == "send":
            plan.append([])
        elif a["a"] == "inject" and plan:
            plan[-1].append(a["d"])
    return plan


def plans_of(scripts_list):
    seen, out = set(), []
    for s in scripts_list:
        p = project(s)
        if not p or not any(p):
            continue                         # nothing injected at all: pure timeouts
        k = json.dumps(p, sort_keys=True)
        if k not in seen:
            seen.add(k)
            out.append(p)
    return out


def _ops(cfg, n, variant):
    return [["get", "get_many"][(k + variant) % 2] for k in range(1, n + 1)]


def _oids(op, k):
    if op == "get":
        return [scripts.BASE_OID + ".%d.0" % k]
    return [scripts.BASE_OID + ".%d.0" % k, scripts.BASE_OID + ".%d.1" % k]


def _responder(cfgref, plan, ops, variant):
    agent = ag.Agent()
    reqs = {}
    st = {"k": 0}

    def respond(req):
        st["k"] += 1
        k = st["k"]
        if k > len(plan) or req.broken:
            return []
        reqs[k] = (ops[k - 1], req)
        out = []
        for i, d in enumerate(plan[k - 1]):
            if d["kind"] == "msg" and d["answers"] not in reqs:
                continue
            out.append((scripts.build_mutant(agent, cfgref[0], reqs, d, variant + i + k), []))
        return out
    return respond


def run_sync(rec, cfg, plan, variant=0):
    a = rec.n
    ops = _ops(cfg, len(plan), variant)
    holder = {}
    api = apidrv.SyncApi(rec, cfg, lambda req: holder["r"](req), timeout=TIMEOUT, engine_given=True)
    holder["r"] = _responder(api.cfgref, plan, ops, variant)
    api.core.gap = GAP if variant % 2 else 0.0
    for k, op in enumerate(ops, 1):
        api.ctx.walk = False
        api.ctx.oids = _oids(op, k)
        try:
            if op == "get":
                api.session.get(api.ctx.oids[0])
            else:
                api.session.get_many(api.ctx.oids)
        except BaseException:  # noqa - everything is in the trace
            pass
    api.close()
    return a, rec.n


async def run_async(rec, cfg, plan, variant=0):
    a = rec.n
    ops = _ops(cfg, len(plan), variant)
    holder = {}
    api = await apidrv.AsyncApi.create(rec, cfg, lambda req: holder["r"](req), timeout=TIMEOUT, engine_given=True)
    holder["r"] = _responder(api.cfgref, plan, ops, variant)
    api.core.gap = GAP if variant % 2 else 0.0
    for k, op in enumerate(ops, 1):
        api.ctx.walk = False
        api.ctx.oids = _oids(op, k)
        try:
            if op == "get":
                await api.session.get(api.ctx.oids[0])
            else:
                await api.session.get_many(api.ctx.oids)
        except BaseException as e:  # noqa
            if type(e).__name__ == "TimeoutError":
                apidrv.api_result_event(api.rec2, api.sid, op, e)
            elif type(e).__name__ == "BlockingIOError":
                # "would block" is the raw non-blocking socket's way of saying "nothing yet"; the public coroutine has to turn it into
                # waiting (and finally TimeoutError).  Escaping from the API it is recorded under a name no outcome accepts.
                api.rec2.emit(dict(ev="Recv", sid=api.sid, op=op, res={"t": "none"}, exc="BlockingIOError(escaped the public API)", bases=["OSError", "Exception"], interp=[]))
    api.close()
    return a, rec.n


def run_all(rec, items):
    """items: list of (client, cfgname, cfg, plan, variant); returns runs [(a, b, info)] in order"""
    runs = []

    async def go(batch):
        out = []
        for (client, cn, cfg, plan, variant) in batch:
            a, b = await run_async(rec, cfg, plan, variant)
            out.append((a, b, dict(client=client, cfgname=cn, plan=plan, variant=variant)))
        return out
    pending_async = []
    for it in items:
        if it[0] == "async":
            pending_async.append(it)
            continue
        if pending_async:
            runs += asyncio.run(go(pending_async))
            pending_async = []
        client, cn, cfg, plan, variant = it
        a, b = run_sync(rec, cfg, plan, variant)
        runs.append((a, b, dict(client=client, cfgname=cn, plan=plan, variant=variant)))
    if pending_async:
        runs += asyncio.run(go(pending_async))
    return runs


# ---------------------------------------------------------------------------------------------------------------
# single exchanges through the public API: one call, the agent answers with the datagrams `answer(cfg, req)` builds

def _one_call(api, op, oids):
    api.ctx.walk = False
    api.ctx.oids = list(oids)
    if op == "get":
        return api.session.get(oids[0])
    return api.session.get_many(list(oids))


def _api_outcome(api, op, r, e):
    """what the PUBLIC call returned / raised (the socket-level proxy is silenced): the Python layer is inside the judged step"""
    res, exc, bases = {"t": "none"}, "", []
    if e is None:
        res = proj(r)
    else:
        exc, bases, _ = exc_info(e)
    api.rec2.emit(dict(ev="Recv", sid=api.sid, op=op, res=res, exc=exc, bases=bases, interp=list(api.proxy.recv_interp)))


def exchange_sync(rec, cfg, op, oids, answer, timeout=TIMEOUT, interp=(), **kw):
    a = rec.n
    holder = {}
    api = apidrv.SyncApi(rec, cfg, lambda req: holder["r"](req), timeout=timeout, engine_given=True, **kw)
    api.proxy.silent = True
    api.proxy.recv_interp = list(interp)
    holder["r"] = lambda req: [] if req.broken else [(d, []) for d in answer(api.cfgref[0], req)]
    try:
        r = _one_call(api, op, oids)
        _api_outcome(api, op, r, None)
    except BaseException as e:  # noqa - recorded
        _api_outcome(api, op, None, e)
    api.close()
    return a, rec.n


async def exchange_async(rec, cfg, op, oids, answer, timeout=TIMEOUT, interp=(), **kw):
    a = rec.n
    holder = {}
    api = await apidrv.AsyncApi.create(rec, cfg, lambda req: holder["r"](req), timeout=timeout, engine_given=True, **kw)
    api.proxy.silent = True
    api.proxy.recv_interp = list(interp)
    holder["r"] = lambda req: [] if req.broken else [(d, []) for d in answer(api.cfgref[0], req)]
    try:
        r = await _one_call(api, op, oids)
        _api_outcome(api, op, r, None)
    except BaseException as e:  # noqa
        _api_outcome(api, op, None, e)
    api.close()
    return a, rec.n


def exchanges(rec, items):
    """items: list of (client, cfg, op, oids, answer, info[, interp]) -> runs [(a, b, info)] in order (async items share one event loop per stretch)"""
    runs = []

    async def go(batch):
        out = []
        for it in batch:
            client, cfg, op, oids, answer, info = it[:6]
            a, b = await exchange_async(rec, cfg, op, oids, answer, interp=it[6] if len(it) > 6 else ())
            out.append((a, b, info))
        return out
    pend = []
    for it in items:
        if it[0] == "async":
            pend.append(it)
            continue
        if pend:
            runs += asyncio.run(go(pend))
            pend = []
        client, cfg, op, oids, answer, info = it[:6]
        a, b = exchange_sync(rec, cfg, op, oids, answer, interp=it[6] if len(it) > 6 else ())
        runs.append((a, b, info))
    if pend:
        runs += asyncio.run(go(pend))
    return runs
