"""TLC-generated corpora (Values.tla etc.), cached per spec hash under build/gen."""
import os, json, hashlib
from . import env, tlc
from .env import ToolError


def _spec_hash(files):
    h = hashlib.sha1()
    for f in files:
        h.update(open(os.path.join(env.SPEC, f), "rb").read())
    return h.hexdigest()[:12]


def generate(module, deps, cfg_text="", timeout=900, workers=1, env_vars=None):
    """Run a generator module (ASSUME PrintT(ToJson(..))) and return the printed JSON objects (cached)."""
    key = _spec_hash([module] + deps) + hashlib.sha1((cfg_text + json.dumps(env_vars or {}, sort_keys=True)).encode()).hexdigest()[:6]
    d = os.path.join(env.BUILD, "gen")
    os.makedirs(d, exist_ok=True)
    cache = os.path.join(d, "%s-%s.json" % (module.replace(".tla", ""), key))
    if os.path.exists(cache):
        return json.load(open(cache)), None
    cfgp = os.path.join(env.scratch("gen"), module.replace(".tla", ".cfg"))
    open(cfgp, "w").write(cfg_text or "\n")
    res = tlc.run_tlc(module, cfgp, workers=workers, timeout=timeout, coverage=False, env=env_vars)
    tlc.require_ok(res, "generator " + module)
    out = res.printed
    if not out:
        raise ToolError("generator %s printed nothing" % module)
    json.dump(out, open(cache, "w"))
    return out, res
