"""Deterministic single-threaded driver of the raw client sockets (split send_*/recv_* API, non-blocking)
with a scripted agent socket on loopback.  Everything that happens is recorded as TraceSession events."""
import socket, struct, time
from . import refcodec as rc, refcrypto as rx
from .project import proj, exc_info, text, bigint
from .env import ToolError

ALG_CODE = {"none": 0, "md5": 1, "sha1": 2}
PRIV_CODE = {"none": 0, "des": 1, "aes": 2}
KT_CODE = {"password": 0, "master": 1, "localized": 2}


def real_interp(term):
    """Interpretation of a REAL term (spec/BER.tla RealTerm) as IEEE double bits, by independent arithmetic."""
    from fractions import Fraction
    k = term["k"]
    if k == "dec":
        s = bytes(term["chars"]).decode("ascii", "replace").strip().replace(",", ".")
        try:
            return list(struct.pack(">d", float(s)))
        except ValueError:
            return None
    if k == "bin":
        m = int.from_bytes(bytes(term["man"]), "big") if term["man"] else 0
        e = int.from_bytes(bytes(term["exp"]["mag"]), "big") if term["exp"]["mag"] else 0
        if term["exp"]["neg"]:
            e = -e
        base = term["base"]
        if abs(e) > 5000:
            v = 0.0 if e < 0 or m == 0 else float("inf")
        else:
            v = Fraction(m) * (Fraction(2) ** term["f"]) * (Fraction(base) ** e)
            try:
                v = float(v)
            except OverflowError:
                v = float("inf")
        if term["sign"]:
            v = -v
        return list(struct.pack(">d", v))
    return None


def real_term_of(content):
    """Mirror of BER!RealTerm for building interp entries (the term itself is recomputed and compared by TLC)."""
    c = bytes(content)
    if not c:
        return None
    f = c[0]
    if f >= 128:
        sign, bb, ff, ef = (f >> 6) & 1, (f >> 4) & 3, (f >> 2) & 3, f & 3
        if bb == 3:
            return None
        if ef < 3:
            elen, es = ef + 1, 1
        else:
            if len(c) < 2:
                return None
            elen, es = c[1], 2
        if elen == 0 or es + elen > len(c) - 0 or es + elen >= len(c) + 1:
            return None
        if es + elen > len(c) - 1 + 1:
            return None
        ex = c[es:es + elen]
        man = c[es + elen:]
        if not man and False:
            return None
        ev = int.from_bytes(ex, "big", signed=True)
        return {"k": "bin", "sign": sign, "base": [2, 8, 16][bb], "f": ff, "exp": bigint(ev),
                "man": list(man.lstrip(b"\0"))}
    if f < 64:
        if f in (1, 2, 3) and len(c) >= 2:
            return {"k": "dec", "nr": f, "chars": list(c[1:])}
    return None


def real_entries(dgram_vb_values):
    out = []
    for raw in dgram_vb_values:
        if len(raw) >= 2 and raw[0] == 0x09:
            try:
                tag, cs, n, nx = rc.rd_tlv(raw, 0)
            except rc.DecErr:
                continue
            t = real_term_of(raw[cs:cs + n])
            if t is not None:
                bits = real_interp(t)
                if bits is not None:
                    out.append({"f": "real", "term": t, "out": bits})
    return out


class Cfg:
    def __init__(self, ver, community="public", user="", engine=b"", auth="none", akt="password", akm=b"",
                 priv="none", pkt="password", pkm=b""):
        self.ver, self.community, self.user, self.engine = ver, community, user, bytes(engine)
        self.auth, self.akt, self.akm = auth, akt, bytes(akm)
        self.priv, self.pkt, self.pkm = priv, pkt, bytes(pkm)

    def auth_code(self):
        return ALG_CODE[self.auth] | (KT_CODE[self.akt] << 6)

    def priv_code(self):
        return PRIV_CODE[self.priv] | (KT_CODE[self.pkt] << 6)

    def ev(self):
        return dict(ver=self.ver, community=text(self.community), user=text(self.user), engine=list(self.engine),
                    auth=self.auth, priv=self.priv, akt=self.akt, akm=list(self.akm), pkt=self.pkt, pkm=list(self.pkm))


def v3_interp(cfg, dgram, engines):
    """Interpretation-table entries TLC may ask for about one v3 datagram: key localisation for the candidate
    engine ids, HMAC over the datagram with the auth field zeroed, decryption of msgData."""
    out = []
    try:
        m = rc.parse_msg(dgram)
    except Exception:
        return out
    if m.get("ver") != "v3":
        return out
    engs = {bytes(m["engine"])} | {bytes(e) for e in engines if e}
    if cfg.auth == "none":
        return out
    for eng in engs:
        ka = None
        if cfg.akt != "localized":
            try:
                ka = rx.kul(cfg.auth, cfg.akt, cfg.akm, eng)
                out.append({"f": "kul", "alg": cfg.auth, "kt": cfg.akt, "km": list(cfg.akm), "engine": list(eng), "out": list(ka)})
            except Exception:
                ka = None
        else:
            ka = cfg.akm
        if ka is not None and len(m["auth"]) > 0:
            z = bytearray(dgram)
            z[m["auth_pos"]:m["auth_pos"] + len(m["auth"])] = bytes(len(m["auth"]))
            out.append({"f": "hmac96", "alg": cfg.auth, "key": list(ka), "msg": list(z), "out": list(rx.hmac96(cfg.auth, ka, bytes(z)))})
        if cfg.priv != "none":
            if cfg.pkt != "localized":
                try:
                    kp = rx.kul(cfg.auth, cfg.pkt, cfg.pkm, eng)
                    out.append({"f": "kul", "alg": cfg.auth, "kt": cfg.pkt, "km": list(cfg.pkm), "engine": list(eng), "out": list(kp)})
                except Exception:
                    kp = None
            else:
                kp = cfg.pkm
            if kp is not None and "enc" in m and eng == bytes(m["engine"]):
                b4 = (m["boots"] & 0xFFFFFFFF).to_bytes(4, "big")
                t4 = (m["time"] & 0xFFFFFFFF).to_bytes(4, "big")
                if 0 <= m["boots"] < 2 ** 32 and 0 <= m["time"] < 2 ** 32:
                    plain = rx.usm_decrypt(cfg.priv, kp[:16], m["priv"], b4, t4, m["enc"])
                    if plain is not None:
                        out.append({"f": "decrypt", "cipher": cfg.priv, "key": list(kp[:16]), "salt": list(m["priv"]),
                                    "boots": list(b4), "time": list(t4), "data": list(m["enc"]), "out": list(plain)})
    return out


def _has_v6():
    try:
        s = socket.socket(socket.AF_INET6, socket.SOCK_DGRAM)
        s.bind(("::1", 0))
        s.close()
        return True
    except OSError:
        return False


HAS_V6 = _has_v6()
# Transport configurations the sessions rotate through (none of the properties depends on them, so every property must hold under
# each): IPv4 / IPv6 loopback, default / explicit ToS and socket buffer sizes.  (host, family, tos, send_buffer, recv_buffer)
NETS = [("127.0.0.1", socket.AF_INET, 0, 0, 0), ("127.0.0.1", socket.AF_INET, 0, 0, 0), ("127.0.0.1", socket.AF_INET, 0x28, 65536, 262144)]
if HAS_V6:
    NETS += [("::1", socket.AF_INET6, 0, 0, 0), ("::1", socket.AF_INET6, 0, 32768, 131072)]
_net_counter = [0]


def next_net():
    _net_counter[0] += 1
    return NETS[_net_counter[0] % len(NETS)]


def agent_socket(net):
    """(bound agent socket, address text as the library wants it, host for SnmpSession(addr=...))"""
    host, fam = net[0], net[1]
    a = socket.socket(fam, socket.SOCK_DGRAM)
    a.bind((host, 0))
    port = a.getsockname()[1]
    api_host = "[::1]" if fam == socket.AF_INET6 else host
    return a, "%s:%d" % (api_host, port), api_host, port


class DeadSocket:
    def __init__(self, exc):
        self._exc = exc

    def __getattr__(self, name):
        def fail(*a, **k):
            raise self._exc
        return fail


class RawSession:
    """One client socket + one agent socket. All calls are recorded."""
    _next_sid = [0]

    def __init__(self, rec, cfg, sid=1, maxbuf=4080, net=None, api_cfg=None):
        """api_cfg: the credentials the caller ultimately wants (installed later through set_keys); default: cfg itself"""
        from gufo.snmp import _fast
        self.rec, self.cfg, self.sid = rec, cfg, sid
        self.net = net or next_net()
        self.agent, self.addr, _, _ = agent_socket(self.net)
        self.agent.setblocking(False)
        tos, sb, rb = self.net[2], self.net[3], self.net[4]
        self.peer = None
        self.engines = set()
        try:
            if cfg.ver == "v1":
                self.sock = _fast.SnmpV1ClientSocket(self.addr, cfg.community, tos, sb, rb, 0)
            elif cfg.ver == "v2c":
                self.sock = _fast.SnmpV2cClientSocket(self.addr, cfg.community, tos, sb, rb, 0)
            else:
                self.sock = _fast.SnmpV3ClientSocket(self.addr, cfg.engine, cfg.user, cfg.auth_code(), cfg.akm,
                                                     cfg.priv_code(), cfg.pkm, tos, sb, rb, 0)
        except Exception as e:  # noqa
            # the constructor refused a legal configuration (the drivers only construct sessions with valid transport settings and
            # valid key material): every call on this session then raises that error, which the trace judge sees as an unjustified refusal
            self.sock = DeadSocket(e)
            if cfg.engine:
                self.engines.add(cfg.engine)
        ac = api_cfg or cfg
        e = dict(ev="Open", sid=sid, maxbuf=maxbuf, apiuser=text(ac.user), apiauth=ac.auth, apipriv=ac.priv)
        e.update(cfg.ev())
        rec.emit(e)
        self.iter = None
        self.last_wire = None

    def close(self):
        self.rec.emit(dict(ev="Close", sid=self.sid))
        if not getattr(self, "dead", False):
            self.agent.close()
        self.sock = None

    def kill_agent(self):
        """the peer goes away (port closed): later sends of this session meet ICMP port-unreachable / ECONNREFUSED"""
        self.agent.close()
        self.dead = True

    def revive_agent(self):
        """the peer comes back on the same port (after kill_agent): datagrams sent from now on are seen again"""
        host, fam = self.net[0], self.net[1]
        port = int(self.addr.rsplit(":", 1)[1])
        a = socket.socket(fam, socket.SOCK_DGRAM)
        a.bind((host, port))
        a.setblocking(False)
        self.agent = a
        self.dead = False

    def drain(self):
        got = []
        if getattr(self, "dead", False):
            return got
        while True:
            try:
                d, peer = self.agent.recvfrom(65535)
                self.peer = peer
                got.append(d)
            except BlockingIOError:
                return got

    def send(self, op, oids=(), maxrep=None, iter_obj=None, names=None, itstart=None, oversize=False, walk=False, peergone=False):
        """oids: texts. For getnext/getbulk a fresh GetIter is created from oids[0] unless iter_obj is given
        (then `names` must carry the OID content the iterator will ask for)."""
        from gufo.snmp import _fast
        exc, bases = "", []
        try:
            if op == "get":
                self.sock.send_get(oids[0])
            elif op == "get_many":
                self.sock.send_get_many(list(oids))
            elif op == "refresh":
                self.sock.send_refresh()
            else:
                if iter_obj is None:
                    iter_obj = _fast.GetIter(oids[0], maxrep) if op == "getbulk" else _fast.GetIter(oids[0])
                self.iter = iter_obj
                if op == "getnext":
                    self.sock.send_get_next(iter_obj)
                else:
                    self.sock.send_get_bulk(iter_obj)
        except BaseException as e:  # noqa - a panic of the code under test is data
            exc, bases, _ = exc_info(e)
        wires = self.drain()
        wire = wires[0] if wires else b""
        self.last_wire = wire if wires else None
        interp = v3_interp(self.cfg, wire, self.engines) if (wires and self.cfg.ver == "v3") else []
        self.rec.emit(dict(ev="Send", sid=self.sid, op=op, oids=[text(o) for o in oids] if names is None else [],
                           names=[list(n) for n in names] if names is not None else [],
                           itstart=list(itstart) if itstart is not None else [],
                           maxrep=bigint(maxrep if maxrep is not None else 0), exc=exc, bases=bases, nwire=len(wires),
                           wire=list(wire), interp=interp, oversize=bool(oversize), walk=bool(walk), peergone=bool(peergone)))
        return wire if wires else None, exc

    def inject(self, dgram, extra_interp=()):
        if self.peer is None:
            raise ToolError("inject before any request was captured")
        self.agent.sendto(bytes(dgram), self.peer)
        interp = list(extra_interp)
        if self.cfg.ver == "v3":
            try:
                m = rc.parse_msg(dgram)
                if m.get("ver") == "v3":
                    self.engines.add(bytes(m["engine"]))
            except Exception:
                pass
            interp += v3_interp(self.cfg, dgram, self.engines)
        self.rec.emit(dict(ev="Inject", sid=self.sid, dgram=list(dgram), interp=interp))

    def recv(self, op, interp=()):
        res, exc, bases = {"t": "none"}, "", []
        try:
            if op == "get":
                r = self.sock.recv_get()
            elif op == "get_many":
                r = self.sock.recv_get_many()
            elif op == "refresh":
                r = self.sock.recv_refresh()
            elif op == "getnext":
                r = self.sock.recv_get_next(self.iter)
            else:
                r = self.sock.recv_get_bulk(self.iter)
            res = proj(r)
        except BaseException as e:  # noqa
            exc, bases, _ = exc_info(e)
        self.rec.emit(dict(ev="Recv", sid=self.sid, op=op, res=res, exc=exc, bases=bases, interp=list(interp)))
        return res, exc

    def position_salt(self, value):
        """cfg(gufo_snmp_verif) hook: put the privacy salt counter at `value` (to cross the wrap-around within a run).  Recorded as a
        key installation, which is what legitimately re-seeds the counter: uniqueness is judged from here on."""
        self.sock.verif_set_salt(value)
        e = dict(ev="SetKeys", sid=self.sid, exc="")
        e.update({k: v for k, v in self.cfg.ev().items() if k in ("user", "auth", "priv", "akt", "akm", "pkt", "pkm")})
        self.rec.emit(e)

    def set_keys(self, cfg):
        exc = ""
        try:
            self.sock.set_keys(cfg.user, cfg.auth_code(), cfg.akm, cfg.priv_code(), cfg.pkm)
        except BaseException as e:  # noqa
            exc = type(e).__name__
        new = Cfg(self.cfg.ver, self.cfg.community, cfg.user, self.cfg.engine, cfg.auth, cfg.akt, cfg.akm, cfg.priv, cfg.pkt, cfg.pkm)
        if not exc:
            self.cfg = new           # a refused installation leaves the one in force (the trace spec does the same)
        e = dict(ev="SetKeys", sid=self.sid, exc=exc)
        e.update({k: v for k, v in new.ev().items() if k in ("user", "auth", "priv", "akt", "akm", "pkt", "pkm")})
        self.rec.emit(e)
        return exc
