"""Driver of the PUBLIC SnmpSession API (sync and async clients) against a scripted agent.

The real SnmpSession / iterator / policer code runs unmodified; its raw socket object is wrapped by a
recording proxy so that every socket-level call (get, get_many, get_next, get_bulk, refresh, set_keys and the
split send_* / recv_* used by the async client) becomes a TraceSession event; the agent records every datagram
it receives (Send.wire) and every datagram it sends (Inject).  Sync: agent in a thread (the client blocks in
recv); async: agent as a datagram endpoint in the same event loop."""
import socket, threading, asyncio, select, time
from . import rawdrv, refcodec as rc, agent as ag
from .project import proj, exc_info, text, bigint
from .env import ToolError


class Ctx:
    """what the API caller is doing right now (op, oids, maxrep, walk) - attached to the Send event"""

    def __init__(self):
        self.op, self.oids, self.maxrep, self.walk = "get", [], 0, False


class Recorder2:
    """thread-safe wrapper around trace.Recorder"""

    def __init__(self, rec):
        self.rec = rec
        self.lock = threading.Lock()

    def emit(self, ev):
        with self.lock:
            self.rec.emit(ev)


class AgentCore:
    """request handling shared by the thread agent and the asyncio agent"""

    def __init__(self, rec2, cfgref, sid, ctx, responder):
        self.rec, self.cfgref, self.sid, self.ctx, self.responder = rec2, cfgref, sid, ctx, responder
        self.engines = set()
        self.requests = []
        self.closed = False
        self.gap = 0.0          # seconds between the datagrams of one answer (0: back to back, the client may read them in one go)

    def handle(self, data, send, later=None):
        cfg = self.cfgref[0]
        c = self.ctx
        interp = rawdrv.v3_interp(cfg, data, self.engines) if cfg.ver == "v3" else []
        self.rec.emit(dict(ev="Send", sid=self.sid, op=c.op, oids=[text(o) for o in c.oids] if not c.walk else [], names=[], itstart=[],
                           maxrep=bigint(c.maxrep or 0), exc="", bases=[], nwire=1, wire=list(data), interp=interp,
                           oversize=False, walk=bool(c.walk)))
        req = ag.Request(cfg, data)
        self.requests.append(req)
        for n, (d, extra) in enumerate(self.responder(req)):
            if cfg.ver == "v3":
                try:
                    m = rc.parse_msg(d)
                    if m.get("ver") == "v3":
                        self.engines.add(bytes(m["engine"]))
                except Exception:
                    pass
            i2 = list(extra) + (rawdrv.v3_interp(cfg, d, self.engines) if cfg.ver == "v3" else [])

            def emit_and_send(d=d, i2=i2):
                if self.closed:
                    return
                self.rec.emit(dict(ev="Inject", sid=self.sid, dgram=list(d), interp=i2))      # recorded BEFORE it can be received
                send(d)
            if self.gap and n:
                if later is not None:
                    later(n * self.gap, emit_and_send)       # asyncio agent: never block the loop the client runs in
                    continue
                time.sleep(self.gap)
            emit_and_send()


class SockProxy:
    """Stands in for the raw client socket inside SnmpSession; forwards every call and records it."""

    def __init__(self, real, rec2, sid, ctx, cfgref, quiet_block=False):
        self._real, self._rec, self._sid, self._ctx, self._cfgref, self._quiet = real, rec2, sid, ctx, cfgref, quiet_block
        self.recv_interp = []
        self.silent = False      # True: outcomes are recorded by the driver at the PUBLIC API boundary instead of here

    def get_fd(self):
        return self._real.get_fd()

    def get_engine_id(self):
        return self._real.get_engine_id()

    def _recv_event(self, op, fn, *a):
        res, exc, bases = {"t": "none"}, "", []
        err = None
        try:
            r = fn(*a)
            res = proj(r)
        except BaseException as e:  # noqa
            exc, bases, _ = exc_info(e)
            err = e
        if not self.silent and not (self._quiet and exc == "BlockingIOError"):
            self._rec.emit(dict(ev="Recv", sid=self._sid, op=op, res=res, exc=exc, bases=bases, interp=list(self.recv_interp)))
        if err is not None:
            raise err
        return r

    def _send_event_on_error(self, op, fn, *a):
        """split send_*: the agent records the Send when the datagram arrives; a refusal is recorded here"""
        try:
            return fn(*a)
        except BlockingIOError:
            raise
        except BaseException as e:  # noqa
            exc, bases, _ = exc_info(e)
            c = self._ctx
            self._rec.emit(dict(ev="Send", sid=self._sid, op=op, oids=[text(o) for o in c.oids] if not c.walk else [], names=[], itstart=[],
                                maxrep=bigint(c.maxrep or 0), exc=exc, bases=bases, nwire=0, wire=[], interp=[], oversize=False, walk=bool(c.walk)))
            raise

    # blocking (sync client)
    def get(self, oid):
        self._ctx.op = "get"
        return self._recv_event("get", self._real.get, oid)

    def get_many(self, oids):
        self._ctx.op = "get_many"
        return self._recv_event("get_many", self._real.get_many, oids)

    def get_next(self, it):
        self._ctx.op = "getnext"
        return self._recv_event("getnext", self._real.get_next, it)

    def get_bulk(self, it):
        self._ctx.op = "getbulk"
        return self._recv_event("getbulk", self._real.get_bulk, it)

    def refresh(self):
        self._ctx.op = "refresh"
        self._ctx.oids = []
        return self._recv_event("refresh", self._real.refresh)

    # split (async client)
    def send_get(self, oid):
        self._ctx.op = "get"
        return self._send_event_on_error("get", self._real.send_get, oid)

    def recv_get(self):
        return self._recv_event("get", self._real.recv_get)

    def send_get_many(self, oids):
        self._ctx.op = "get_many"
        return self._send_event_on_error("get_many", self._real.send_get_many, oids)

    def recv_get_many(self):
        return self._recv_event("get_many", self._real.recv_get_many)

    def send_get_next(self, it):
        self._ctx.op = "getnext"
        return self._send_event_on_error("getnext", self._real.send_get_next, it)

    def recv_get_next(self, it):
        return self._recv_event("getnext", self._real.recv_get_next, it)

    def send_get_bulk(self, it):
        self._ctx.op = "getbulk"
        return self._send_event_on_error("getbulk", self._real.send_get_bulk, it)

    def recv_get_bulk(self, it):
        return self._recv_event("getbulk", self._real.recv_get_bulk, it)

    def send_refresh(self):
        self._ctx.op = "refresh"
        self._ctx.oids = []
        return self._send_event_on_error("refresh", self._real.send_refresh)

    def recv_refresh(self):
        return self._recv_event("refresh", self._real.recv_refresh)

    def set_keys(self, user_name, auth_alg, auth_key, priv_alg, priv_key):
        exc = ""
        try:
            self._real.set_keys(user_name, auth_alg, auth_key, priv_alg, priv_key)
        except BaseException as e:  # noqa
            exc = type(e).__name__
        old = self._cfgref[0]
        inv_alg = {v: k for k, v in rawdrv.ALG_CODE.items()}
        inv_priv = {v: k for k, v in rawdrv.PRIV_CODE.items()}
        inv_kt = {v: k for k, v in rawdrv.KT_CODE.items()}
        new = rawdrv.Cfg(old.ver, old.community, user_name, old.engine, inv_alg[auth_alg & 0x3F], inv_kt[auth_alg >> 6], bytes(auth_key),
                         inv_priv[priv_alg & 0x3F], inv_kt[priv_alg >> 6], bytes(priv_key))
        self._cfgref[0] = new
        e = dict(ev="SetKeys", sid=self._sid, exc=exc)
        e.update({k: v for k, v in new.ev().items() if k in ("user", "auth", "priv", "akt", "akm", "pkt", "pkm")})
        self._rec.emit(e)
        if exc:
            raise ValueError(exc)


class DynSockProxy(SockProxy):
    """the session exposes its socket through a read-only property (it may create / replace the socket on demand): every call goes
    to whatever that property returns at the time of the call"""

    def __init__(self, getter, rec2, sid, ctx, cfgref, quiet_block=False):
        self.__dict__["_getter"] = getter
        SockProxy.__init__(self, None, rec2, sid, ctx, cfgref, quiet_block)

    @property
    def _real(self):
        return self.__dict__["_getter"]()

    @_real.setter
    def _real(self, v):
        pass


def install_proxy(session, rec2, sid, ctx, cfgref, quiet_block=False):
    """put the recording proxy between the session and its socket.  The attribute `_sock` is private to the library: when a tree
    under test has turned it into something that cannot be assigned (a property without a setter), the session object gets a
    subclass of its own class whose `_sock` is the proxy, and the proxy forwards to the original property."""
    try:
        proxy = SockProxy(session._sock, rec2, sid, ctx, cfgref, quiet_block)
        session._sock = proxy
        return proxy
    except AttributeError:
        cls = type(session)
        prop = None
        for k in cls.__mro__:
            if isinstance(k.__dict__.get("_sock"), property):
                prop = k.__dict__["_sock"]
                break
        if prop is None:
            raise
        proxy = DynSockProxy(lambda: prop.fget(session), rec2, sid, ctx, cfgref, quiet_block)
        session.__class__ = type(cls.__name__, (cls,), {"_sock": property(lambda self: proxy)})
        return proxy


class _Meta(type):
    def __instancecheck__(cls, obj):
        return isinstance(obj, cls.REAL) or isinstance(obj, SockProxy)


def _patch_v3_class(module):
    """SnmpSession.refresh()/get_engine_id() test isinstance(self._sock, SnmpV3ClientSocket): make the proxy pass
    that test without touching the library."""
    real = module.SnmpV3ClientSocket
    if getattr(real, "_verif_patched", False):
        return

    class V3Both(metaclass=_Meta):
        REAL = real
        _verif_patched = True

        def __new__(cls, *a, **kw):
            return real(*a, **kw)
    module.SnmpV3ClientSocket = V3Both


class DeadSession:
    """stands in for a session whose constructor refused a legal transport configuration: every call raises that error"""

    def __init__(self, exc):
        self.__dict__["_exc"] = exc
        self.__dict__["_sock"] = rawdrv.DeadSocket(exc)

    def __getattr__(self, name):
        def fail(*a, **k):
            raise self._exc
        return fail

    def __setattr__(self, name, value):
        self.__dict__[name] = value


def _make_session(cm, rec2, sid, host, **kw):
    try:
        return cm.SnmpSession(host, **kw)
    except Exception as e:  # noqa
        # recorded as a refused request: the trace judge accepts a refusal only when the request really cannot be sent
        name, bases, _ = exc_info(e)
        rec2.emit(dict(ev="Send", sid=sid, op="get", oids=[], names=[], itstart=[], maxrep=bigint(0), exc=name, bases=bases, nwire=0, wire=[], interp=[],
                       oversize=False, walk=False))
        return DeadSession(e)


_user_styles = [0]


def user_of(cfg):
    """gufo.snmp.user.User for cfg.  The keys are given to the constructor, or (password-type keys only: no alignment is involved)
    attached to the public attributes afterwards - `user.priv_key = ...` is ordinary use of the class."""
    from gufo.snmp.user import User, Md5Key, Sha1Key, DesKey, Aes128Key, KeyType
    if cfg.ver != "v3":
        return None
    kt = {"password": KeyType.Password, "master": KeyType.Master, "localized": KeyType.Localized}
    ak = None
    if cfg.auth != "none":
        ak = (Md5Key if cfg.auth == "md5" else Sha1Key)(cfg.akm, key_type=kt[cfg.akt])
    pk = None
    if cfg.priv != "none":
        pk = (DesKey if cfg.priv == "des" else Aes128Key)(cfg.pkm, key_type=kt[cfg.pkt])
    _user_styles[0] += 1
    style = _user_styles[0] % 3
    if style and cfg.akt == "password" and (pk is None or cfg.pkt == "password") and ak is not None:
        if style == 1 and pk is not None:
            u = User(cfg.user, auth_key=ak)
            u.priv_key = pk
            return u
        if style == 2:
            u = User(cfg.user)
            u.auth_key = ak
            if pk is not None:
                u.priv_key = pk
            return u
    return User(cfg.user, auth_key=ak, priv_key=pk)


def _engine_arg(cfg, engine_given):
    """engine_given: True (the agent's engine id is passed), False (None is passed), "empty" (b"" is passed: also "not known")"""
    if cfg.ver != "v3":
        return None
    if engine_given is True:
        return cfg.engine
    return b"" if engine_given == "empty" else None


def initial_cfg(cfg, engine_given):
    """configuration the raw socket is constructed with by SnmpSession.__init__ (deferred user when no engine id)"""
    if cfg.ver != "v3" or engine_given is True:
        return cfg
    return rawdrv.Cfg("v3", user="", engine=b"")


class SyncApi:
    def __init__(self, rec, cfg, responder, sid=1, timeout=0.25, engine_given=True, auto_version=False, **kw):
        """auto_version: leave `version` to the session's documented default (v3 when a user is given, v2c otherwise)"""
        from gufo.snmp.sync_client import client as cm
        from gufo.snmp import SnmpVersion
        _patch_v3_class(cm)
        self.rec2 = Recorder2(rec)
        self.ctx = Ctx()
        self.sid = sid
        self.cfgref = [initial_cfg(cfg, engine_given)]
        self.net = kw.pop("net", None) or rawdrv.next_net()
        self.sock, _, host, port = rawdrv.agent_socket(self.net)
        kw.setdefault("tos", self.net[2])
        kw.setdefault("send_buffer", self.net[3])
        kw.setdefault("recv_buffer", self.net[4])
        e = dict(ev="Open", sid=sid, maxbuf=4080, apiuser=text(cfg.user), apiauth=cfg.auth, apipriv=cfg.priv)
        e.update(self.cfgref[0].ev())
        self.rec2.emit(e)
        self.open_event, self.opened = e, {sid}
        ver = {"v1": SnmpVersion.v1, "v2c": SnmpVersion.v2c, "v3": SnmpVersion.v3}[cfg.ver]
        if auto_version and cfg.ver != "v1":
            ver = None
        self.session = _make_session(cm, self.rec2, sid, host, port=port, community=cfg.community, engine_id=_engine_arg(cfg, engine_given),
                                     user=user_of(cfg), version=ver, timeout=timeout, **kw)
        self.proxy = install_proxy(self.session, self.rec2, sid, self.ctx, self.cfgref)
        self.core = AgentCore(self.rec2, self.cfgref, sid, self.ctx, responder)
        self.stop = False
        self.th = threading.Thread(target=self._loop, daemon=True)
        self.th.start()

    def _loop(self):
        while not self.stop:
            r, _, _ = select.select([self.sock], [], [], 0.05)
            if not r:
                continue
            try:
                data, peer = self.sock.recvfrom(65535)
            except OSError:
                return
            if self.stop:
                return
            self.core.handle(data, lambda d: self.sock.sendto(d, peer))

    def close(self):
        self.stop = True
        self.core.closed = True
        try:
            self.sock.sendto(b"", self.sock.getsockname())      # wake the agent thread
        except OSError:
            pass
        self.th.join(1.0)
        self.sock.close()
        for k in sorted(self.opened):
            self.rec2.emit(dict(ev="Close", sid=k))


class AsyncApi:
    """use inside a running loop: `api = await AsyncApi.create(...)`"""

    @classmethod
    async def create(cls, rec, cfg, responder, sid=1, timeout=0.25, engine_given=True, auto_version=False, **kw):
        from gufo.snmp.async_client import client as cm
        from gufo.snmp import SnmpVersion
        _patch_v3_class(cm)
        self = cls()
        self.rec2 = Recorder2(rec)
        self.ctx = Ctx()
        self.sid = sid
        self.cfgref = [initial_cfg(cfg, engine_given)]
        self.core = AgentCore(self.rec2, self.cfgref, sid, self.ctx, responder)
        loop = asyncio.get_running_loop()
        core = self.core

        class Proto(asyncio.DatagramProtocol):
            def connection_made(s, transport):
                s.transport = transport

            def datagram_received(s, data, addr):
                core.handle(data, lambda d: s.transport.sendto(d, addr), later=loop.call_later)
        self.net = kw.pop("net", None) or rawdrv.next_net()
        host = "[::1]" if self.net[1] == socket.AF_INET6 else self.net[0]
        self.transport, self.proto = await loop.create_datagram_endpoint(Proto, local_addr=(self.net[0], 0), family=self.net[1])
        port = self.transport.get_extra_info("sockname")[1]
        kw.setdefault("tos", self.net[2])
        kw.setdefault("send_buffer", self.net[3])
        kw.setdefault("recv_buffer", self.net[4])
        e = dict(ev="Open", sid=sid, maxbuf=4080, apiuser=text(cfg.user), apiauth=cfg.auth, apipriv=cfg.priv)
        e.update(self.cfgref[0].ev())
        self.rec2.emit(e)
        self.open_event, self.opened = e, {sid}
        ver = {"v1": SnmpVersion.v1, "v2c": SnmpVersion.v2c, "v3": SnmpVersion.v3}[cfg.ver]
        if auto_version and cfg.ver != "v1":
            ver = None
        self.session = _make_session(cm, self.rec2, sid, host, port=port, community=cfg.community, engine_id=_engine_arg(cfg, engine_given),
                                     user=user_of(cfg), version=ver, timeout=timeout, **kw)
        self.proxy = install_proxy(self.session, self.rec2, sid, self.ctx, self.cfgref, quiet_block=True)
        return self

    def close(self):
        self.core.closed = True
        self.transport.close()
        for k in sorted(self.opened):
            self.rec2.emit(dict(ev="Close", sid=k))


def use_sid(api, k):
    """Several iterators of ONE real session are judged as separate trace sessions (the trace specification keeps one iterator
    per session id): everything the session does from now on is recorded under trace session k."""
    if k not in api.opened:
        e = dict(api.open_event)
        e["sid"] = k
        api.rec2.emit(e)
        api.opened.add(k)
    api.sid = k
    api.core.sid = k
    api.proxy._sid = k


def api_result_event(rec2, sid, op, exc_obj):
    """API-level outcome when the call ended with an exception the socket level did not record
    (async TimeoutError after wait_for)."""
    name, bases, _ = exc_info(exc_obj)
    rec2.emit(dict(ev="Recv", sid=sid, op=op, res={"t": "none"}, exc=name, bases=bases, interp=[]))
