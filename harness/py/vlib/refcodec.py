"""Plain BER/SNMP encoder + a small decoder, used ONLY to produce stimuli (agent replies) and to let the
scripted agent read request ids.  Not trusted for judgement: every octet sent is logged and re-decoded by
TLC (spec/SNMP.tla) during trace validation."""
import struct


def enc_len(n, form=None):
    """form: None=minimal, 'long1'..'long4' = force long form with k length octets."""
    if form is None:
        if n < 128:
            return bytes([n])
        if n < 256:
            return bytes([0x81, n])
        if n < 65536:
            return bytes([0x82, n >> 8, n & 0xFF])
        return bytes([0x83, n >> 16, (n >> 8) & 0xFF, n & 0xFF])
    k = max(int(form[4:]), (n.bit_length() + 7) // 8 or 1)        # at least as many octets as the value needs
    return bytes([0x80 | k]) + n.to_bytes(k, "big")


def tlv(tag, content, form=None):
    return bytes([tag]) + enc_len(len(content), form) + bytes(content)


def int_content(v):
    """Minimal two's complement content octets of a Python int."""
    n = 1
    while True:
        try:
            return v.to_bytes(n, "big", signed=True)
        except OverflowError:
            n += 1


def enc_int(v, tag=0x02, form=None):
    return tlv(tag, int_content(v), form)


def enc_unsigned(v, tag, form=None):
    return tlv(tag, int_content(v), form)  # non-negative: leading zero octet added when high bit set


def arc_octets(a):
    out = [a & 0x7F]
    a >>= 7
    while a:
        out.append((a & 0x7F) | 0x80)
        a >>= 7
    return bytes(reversed(out))


def oid_content(arcs):
    arcs = list(arcs)
    first = arcs[0] * 40 + arcs[1]
    return arc_octets(first) + b"".join(arc_octets(a) for a in arcs[2:])


def oid_from_text(s):
    return oid_content([int(x) for x in s.split(".")])


def enc_oid(arcs, form=None):
    return tlv(0x06, oid_content(arcs), form)


def oid_arcs(content):
    """content octets -> list of arcs (X.690)."""
    subs, cur = [], 0
    for c in content:
        cur = (cur << 7) | (c & 0x7F)
        if not c & 0x80:
            subs.append(cur)
            cur = 0
    if not subs:
        return []
    f = subs[0]
    x = min(f // 40, 2)
    return [x, f - 40 * x] + subs[1:]


# --- values: ("int", v) ("octets", b) ("null",) ("oid", arcs) ("ip", b4) ("counter32", v) ("gauge32", v)
# ("timeticks", v) ("opaque", b) ("counter64", v) ("uinteger32", v) ("bool", b) ("objdesc", b)
# ("real", content-bytes) ("noSuchObject",) ("noSuchInstance",) ("endOfMibView",) ("raw", tlv-bytes)
APP = {"ip": 0x40, "counter32": 0x41, "gauge32": 0x42, "timeticks": 0x43, "opaque": 0x44, "counter64": 0x46, "uinteger32": 0x47}


def enc_value(v, form=None):
    k = v[0]
    if k == "int":
        return enc_int(v[1], form=form)
    if k == "octets":
        return tlv(0x04, v[1], form)
    if k == "null":
        return tlv(0x05, b"", form)
    if k == "oid":
        return enc_oid(v[1], form)
    if k == "objdesc":
        return tlv(0x07, v[1], form)
    if k == "real":
        return tlv(0x09, v[1], form)
    if k == "bool":
        return tlv(0x01, bytes([0xFF if v[1] else 0]), form)
    if k == "ip":
        return tlv(0x40, v[1], form)
    if k in ("counter32", "gauge32", "timeticks", "counter64", "uinteger32"):
        return enc_unsigned(v[1], APP[k], form)
    if k == "opaque":
        return tlv(0x44, v[1], form)
    if k == "noSuchObject":
        return tlv(0x80, b"", form)
    if k == "noSuchInstance":
        return tlv(0x81, b"", form)
    if k == "endOfMibView":
        return tlv(0x82, b"", form)
    if k == "raw":
        return bytes(v[1])
    raise ValueError(k)


PDU_TAG = {"get": 0xA0, "getnext": 0xA1, "response": 0xA2, "getbulk": 0xA5, "report": 0xA8}


def enc_varbind(name, value, form=None):
    """name: arcs list, or bytes = raw OID content."""
    n = tlv(0x06, name if isinstance(name, (bytes, bytearray)) else oid_content(name))
    return tlv(0x30, n + enc_value(value, form), form)


def enc_pdu(ptype, reqid, f2, f3, varbinds, form=None):
    body = enc_int(reqid) + enc_int(f2) + enc_int(f3) + tlv(0x30, b"".join(enc_varbind(n, v, form) for n, v in varbinds), form)
    return tlv(PDU_TAG[ptype] if isinstance(ptype, str) else ptype, body, form)


def enc_community_msg(ver, community, pdu_bytes, form=None):
    v = {"v1": 0, "v2c": 1}[ver] if isinstance(ver, str) else ver
    return tlv(0x30, enc_int(v) + tlv(0x04, community) + pdu_bytes, form)


def enc_scoped(ctx_engine, ctx_name, pdu_bytes, form=None):
    return tlv(0x30, tlv(0x04, ctx_engine) + tlv(0x04, ctx_name) + pdu_bytes, form)


def enc_v3_msg(msg_id, flags, engine, boots, time, user, auth_params, priv_params, data, max_size=65507, sec_model=3, form=None):
    """data: already encoded msgData (scoped PDU bytes, or OCTET STRING TLV of ciphertext)."""
    hdr = tlv(0x30, enc_int(msg_id) + enc_int(max_size) + tlv(0x04, bytes([flags])) + enc_int(sec_model))
    usm = tlv(0x30, tlv(0x04, engine) + enc_int(boots) + enc_int(time) + tlv(0x04, user) + tlv(0x04, auth_params) + tlv(0x04, priv_params))
    return tlv(0x30, enc_int(3) + hdr + tlv(0x04, usm) + data, form)


# ---------------------------------------------------------------------------------------------
# Small permissive decoder so that the scripted agent can read what the client asked.
class DecErr(Exception):
    pass


def rd_tlv(b, p):
    if p + 2 > len(b):
        raise DecErr("short")
    tag = b[p]
    l1 = b[p + 1]
    p += 2
    if l1 & 0x80:
        k = l1 & 0x7F
        if p + k > len(b):
            raise DecErr("short")
        n = int.from_bytes(b[p:p + k], "big")
        p += k
    else:
        n = l1
    if p + n > len(b):
        raise DecErr("overrun")
    return tag, p, n, p + n


def rd_int(b, p):
    tag, cs, n, nx = rd_tlv(b, p)
    return int.from_bytes(b[cs:cs + n], "big", signed=True) if n else 0, nx


def parse_pdu(b, p):
    tag, cs, n, nx = rd_tlv(b, p)
    reqid, q = rd_int(b, cs)
    f2, q = rd_int(b, q)
    f3, q = rd_int(b, q)
    t, vs, vn, vnx = rd_tlv(b, q)
    vbs = []
    q = vs
    while q < vs + vn:
        t, s, m, q2 = rd_tlv(b, q)
        t2, os_, on, onx = rd_tlv(b, s)
        name = bytes(b[os_:os_ + on])
        vbs.append((name, bytes(b[onx:q2])))
        q = q2
    return dict(tag=tag, ptype={0xA0: "get", 0xA1: "getnext", 0xA2: "response", 0xA5: "getbulk", 0xA8: "report"}.get(tag, tag),
                reqid=reqid, f2=f2, f3=f3, vbs=vbs)


def parse_msg(b):
    """Returns dict(ver, community|v3 fields, pdu) for messages the client sends. Raises DecErr."""
    b = bytes(b)
    try:
        tag, cs, n, nx = rd_tlv(b, 0)
        ver, p = rd_int(b, cs)
        if ver in (0, 1):
            t, s, m, p2 = rd_tlv(b, p)
            return dict(ver={0: "v1", 1: "v2c"}[ver], community=b[s:s + m], pdu=parse_pdu(b, p2))
        if ver != 3:
            raise DecErr("version")
        t, hs, hn, p = rd_tlv(b, p)
        msg_id, q = rd_int(b, hs)
        max_size, q = rd_int(b, q)
        t, fs, fn, q = rd_tlv(b, q)
        flags = b[fs]
        sec_model, q = rd_int(b, q)
        t, ss, sn, p = rd_tlv(b, p)     # security params octet string
        t, us, un, _ = rd_tlv(b, ss)
        t, es, en, q = rd_tlv(b, us)
        engine = b[es:es + en]
        boots, q = rd_int(b, q)
        time, q = rd_int(b, q)
        t, s, m, q = rd_tlv(b, q)
        user = b[s:s + m]
        t, s, m, q = rd_tlv(b, q)
        auth, auth_pos = b[s:s + m], s
        t, s, m, q = rd_tlv(b, q)
        priv = b[s:s + m]
        out = dict(ver="v3", msg_id=msg_id, max_size=max_size, flags=flags, sec_model=sec_model, engine=engine, boots=boots,
                   time=time, user=user, auth=auth, auth_pos=auth_pos, priv=priv)
        if b[p] == 0x04:
            t, s, m, _ = rd_tlv(b, p)
            out["enc"] = b[s:s + m]
        else:
            out.update(parse_scoped(b, p))
        return out
    except IndexError:
        raise DecErr("index")


def parse_scoped(b, p=0):
    t, s, m, nx = rd_tlv(b, p)
    t, cs, cn, q = rd_tlv(b, s)
    ctx_engine = b[cs:cs + cn]
    t, ns, nn, q = rd_tlv(b, q)
    return dict(ctx_engine=ctx_engine, ctx_name=b[ns:ns + nn], pdu=parse_pdu(b, q), scoped_len=nx - p)


def selftest():
    assert enc_int(0) == b"\x02\x01\x00" and enc_int(-1) == b"\x02\x01\xff" and enc_int(128) == b"\x02\x02\x00\x80"
    assert enc_int(-129) == b"\x02\x02\xff\x7f" and enc_int(-32767) == b"\x02\x02\x80\x01"
    assert oid_from_text("1.3.6.1.2.1.1.3.0") == bytes([43, 6, 1, 2, 1, 1, 3, 0])
    assert oid_content([1, 3, 16384]) == bytes([43, 0x81, 0x80, 0])
    assert oid_arcs(oid_content([2, 999, 4294967295])) == [2, 999, 4294967295]
    m = enc_community_msg("v2c", b"public", enc_pdu("get", 5, 0, 0, [([1, 3, 6], ("null",))]))
    d = parse_msg(m)
    assert d["community"] == b"public" and d["pdu"]["reqid"] == 5 and d["pdu"]["vbs"][0][0] == b"+\x06"
