"""Replay of abstract Session.tla behaviours (TLC-generated scripts) on the real raw sockets.
The driver only produces stimuli and records; judgement is TraceSession.tla's."""
from . import rawdrv, agent as ag, refcodec as rc

OPS_V1 = ["get", "get_many", "getnext"]
OPS = ["get", "get_many", "getnext", "getbulk"]
BASE_OID = "1.3.6.1.2.1.2.2.1"
BASE_ARCS = [1, 3, 6, 1, 2, 1, 2, 2, 1]


def std_cfgs():
    e = ag.Agent().engine
    return {
        "v1": rawdrv.Cfg("v1", community="public"),
        "v2c": rawdrv.Cfg("v2c", community="public"),
        "v3-noauth": rawdrv.Cfg("v3", user="user00", engine=e),
        "v3-md5": rawdrv.Cfg("v3", user="user10", engine=e, auth="md5", akt="password", akm=b"authpass10"),
        "v3-sha1": rawdrv.Cfg("v3", user="user20", engine=e, auth="sha1", akt="password", akm=b"authpass20"),
        "v3-md5-des": rawdrv.Cfg("v3", user="user11", engine=e, auth="md5", akt="password", akm=b"authpass11",
                                 priv="des", pkt="password", pkm=b"privpass11"),
        "v3-sha1-aes": rawdrv.Cfg("v3", user="user22", engine=e, auth="sha1", akt="password", akm=b"authpass22",
                                  priv="aes", pkt="password", pkm=b"privpass22"),
        "v3-md5-aes": rawdrv.Cfg("v3", user="user12", engine=e, auth="md5", akt="master",
                                 akm=bytes(range(16)), priv="aes", pkt="master", pkm=bytes(range(16, 32))),
        "v3-sha1-des": rawdrv.Cfg("v3", user="user21", engine=e, auth="sha1", akt="localized",
                                  akm=bytes(range(20)), priv="des", pkt="localized", pkm=bytes(range(30, 50))),
    }


def mixed_cfgs():
    """v3 users whose authentication and privacy keys are given in different forms (password / master / localized):
    each key must be expanded according to its own key type, at construction and in set_keys() alike"""
    e = ag.Agent().engine
    return {
        "v3-md5-des-pw+master": rawdrv.Cfg("v3", user="mix1", engine=e, auth="md5", akt="password", akm=b"authpass31",
                                           priv="des", pkt="master", pkm=bytes(range(40, 56))),
        "v3-sha1-aes-master+pw": rawdrv.Cfg("v3", user="mix2", engine=e, auth="sha1", akt="master", akm=bytes(range(60, 80)),
                                            priv="aes", pkt="password", pkm=b"privpass32"),
        "v3-md5-aes-pw+localized": rawdrv.Cfg("v3", user="mix3", engine=e, auth="md5", akt="password", akm=b"authpass33",
                                              priv="aes", pkt="localized", pkm=bytes(range(90, 106))),
        "v3-sha1-des-localized+pw": rawdrv.Cfg("v3", user="mix4", engine=e, auth="sha1", akt="localized", akm=bytes(range(110, 130)),
                                               priv="des", pkt="password", pkm=b"privpass34"),
        "v3-sha1-aes-master+localized": rawdrv.Cfg("v3", user="mix5", engine=e, auth="sha1", akt="master", akm=bytes(range(7, 27)),
                                                   priv="aes", pkt="localized", pkm=bytes(range(130, 150))),
        "v3-md5-des-localized+master": rawdrv.Cfg("v3", user="mix6", engine=e, auth="md5", akt="localized", akm=bytes(range(3, 19)),
                                                  priv="des", pkt="master", pkm=bytes(range(150, 166))),
    }


def shared_secret_cfgs():
    """different users of one process that happen to use the SAME password bytes under different digests / ciphers (nothing may be
    shared between them: keys depend on the digest, RFC 3414 A.2)"""
    e = ag.Agent().engine
    pw = b"one-password-for-all"
    return {
        "v3-md5-samepw": rawdrv.Cfg("v3", user="same1", engine=e, auth="md5", akt="password", akm=pw),
        "v3-sha1-samepw": rawdrv.Cfg("v3", user="same2", engine=e, auth="sha1", akt="password", akm=pw),
        "v3-md5-aes-samepw": rawdrv.Cfg("v3", user="same3", engine=e, auth="md5", akt="password", akm=pw, priv="aes", pkt="password", pkm=pw),
        "v3-sha1-des-samepw": rawdrv.Cfg("v3", user="same4", engine=e, auth="sha1", akt="password", akm=pw, priv="des", pkt="password", pkm=pw),
    }


def all_cfgs():
    d = std_cfgs()
    d.update(mixed_cfgs())
    d.update(shared_secret_cfgs())
    return d


def model_consts(cfgname):
    c = all_cfgs()[cfgname]
    return dict(Ver=c.ver, HasAuth=c.auth != "none", HasPriv=c.priv != "none")


def do_send(sess, k, variant):
    ops = OPS_V1 if sess.cfg.ver == "v1" else OPS
    op = ops[(k + variant) % len(ops)]
    if op == "get":
        w, exc = sess.send("get", [BASE_OID + ".%d.0" % k])
    elif op == "get_many":
        w, exc = sess.send("get_many", [BASE_OID + ".%d.0" % k, BASE_OID + ".%d.1" % k])
    elif op == "getnext":
        w, exc = sess.send("getnext", [BASE_OID])
    else:
        w, exc = sess.send("getbulk", [BASE_OID], maxrep=3 + k)
    return op, w, exc


def reply_varbinds(op, k):
    """a reply to request k that names it (value 1000+k)"""
    if op == "get":
        return [(BASE_ARCS + [k, 0], ("int", 1000 + k))]
    if op == "get_many":
        return [(BASE_ARCS + [k, 0], ("int", 1000 + k)), (BASE_ARCS + [k, 1], ("octets", b"req%d" % k))]
    if op == "getnext":
        return [(BASE_ARCS + [1, k], ("int", 1000 + k))]
    return [(BASE_ARCS + [1, k], ("int", 1000 + k)), (BASE_ARCS + [2, k], ("gauge32", 2000 + k))]


def near_id(x, variant, ids):
    """an id different from every id in `ids`, chosen to resemble x (catches comparisons that look at part of the id only)"""
    cands = [(x + 1) & 0x7FFFFFFF, x ^ 0x40000000, x & 0xFFFF, x + 2 ** 32, x ^ 0x00010000, (x - 1) & 0x7FFFFFFF, x - 2 ** 32, x >> 8,
             x + 2 ** 40, 0, x + 2 ** 31, -x if x else 5]
    for i in range(len(cands)):
        c = cands[(variant + i) % len(cands)]
        if c not in ids:
            return c
    return ag.other_id(ids)


def near_cred(c, variant):
    """a credential that is not c but resembles it (prefix / extension / case / empty)"""
    c = bytes(c)
    cands = [b"other", c + b"x", c[:-1], c.upper() if c.upper() != c else c.lower(), b"", c[1:], c + b"\x00"]
    for i in range(len(cands)):
        v = cands[(variant + i) % len(cands)]
        if v != c:
            return v
    return b"other"


def build_mutant(agent, cfg, reqs, d, variant=0):
    """d: abstract datagram record of Session.tla -> concrete octets"""
    if d["kind"] == "garbage":
        k = max(reqs)
        op, req = reqs[k]
        full = agent.reply(cfg, req, reply_varbinds(op, k))
        return full[:-3]                                   # truncated datagram
    j = d["answers"]
    op, req = reqs[j]
    ids = {r.reqid for _, r in reqs.values()} | {r.msgid for _, r in reqs.values()}
    kw = {}
    ptype = {"response": "response", "report": "report", "request": "get"}[d["pdu"]]
    if not d["verOk"]:
        kw["ver"] = {"v1": "v2c", "v2c": "v1", "v3": "v2c"}[cfg.ver]
    if not d["credOk"]:
        kw["community"] = near_cred(cfg.community.encode(), variant)
        kw["user"] = near_cred(cfg.user.encode(), variant)
    if d["reqIdOf"] == 99:
        kw["reqid"] = near_id(req.reqid, variant, ids)
    if cfg.ver == "v3":
        if not d["engineOk"]:
            e = agent.engine
            kw["engine"] = [b"\x80\x00\x1f\x88\x80\x09\x09\x09\x09", e + b"\x01", e[:-1], e[:-1] + bytes([e[-1] ^ 1])][variant % 4]
            kw["key_engine"] = agent.engine
        if d["msgIdOf"] == 99:
            kw["msgid"] = near_id(req.msgid, variant + 3, ids)
        mac = d["mac"]
        kw["mac"] = {"valid": "valid", "zero": "zero", "random": "random", "absent": "absent", "flipped": "flip"}[mac]
        if cfg.auth == "none":
            kw["mac"] = "absent"
        kw["flag_auth"] = d["flagAuth"]
        kw["enc"] = {"ok": "ok", "plain": "plain", "bad": "badkey"}[d["enc"]]
    # replies of every kind (matching, stale, foreign) also come with a non-zero error-status: matching is about ids, not about it
    es = [0, 0, 2, 0, 5, 2, 1, 0][variant % 8]
    if es and ptype == "response":
        kw["es"], kw["ei"] = es, 1
    vbs = reply_varbinds(op, j)
    if ptype == "report":
        vbs = [([1, 3, 6, 1, 6, 3, 15, 1, 1, 3, 0], ("counter32", 7))]
    if ptype == "get":
        vbs = [(n, ("null",)) for n, _ in vbs]
    return agent.reply(cfg, req, vbs, ptype=ptype, **kw)


def mutant_name(cfg, d):
    """short name of an abstract datagram: which respects differ from the matching authentic reply"""
    if d["kind"] == "garbage":
        return "garbage"
    has_auth = cfg.ver == "v3" and cfg.auth != "none"
    has_priv = cfg.ver == "v3" and cfg.priv != "none"
    parts = []
    if not d["verOk"]:
        parts.append("version")
    if not d["credOk"]:
        parts.append("cred")
    if not d["engineOk"]:
        parts.append("engine")
    if d["msgIdOf"] == 99:
        parts.append("msgid")
    if d["reqIdOf"] == 99:
        parts.append("reqid")
    if d["pdu"] != "response":
        parts.append("pdu=" + d["pdu"])
    if d["mac"] != ("valid" if has_auth else "absent"):
        parts.append("mac=" + d["mac"])
    if d["flagAuth"] != has_auth:
        parts.append("flagAuth=%s" % d["flagAuth"])
    if d["enc"] != ("ok" if has_priv else "plain"):
        parts.append("enc=" + d["enc"])
    return "+".join(parts) or "matching"


def run_script(rec, cfg, script, variant=0, sid=1):
    """Replays one behaviour. Returns (first_event_index, last_event_index_exclusive, calls) where calls
    describes every real recv call: (event index, op, [names of datagrams consumed], model outcome)."""
    first = rec.n
    calls = []
    queue = []          # abstract datagrams queued and not yet consumed (by name, with the request they answer)
    consumed = []
    sess = rawdrv.RawSession(rec, cfg, sid=sid)
    agent = ag.Agent()
    reqs = {}
    k = 0
    cur_op = None
    for a in script:
        if a["a"] == "send":
            k += 1
            cur_op, w, exc = do_send(sess, k, variant)
            if w is None:
                break
            reqs[k] = (cur_op, ag.Request(cfg, w))
        elif a["a"] == "inject":
            sess.inject(build_mutant(agent, cfg, reqs, a["d"], variant + len(queue) + k))
            nm = mutant_name(cfg, a["d"])
            if a["d"]["kind"] == "msg" and a["d"]["answers"] != k:
                nm += "(stale)"
            queue.append(nm)
        elif a["a"] == "recvone":
            consumed.append(queue.pop(0) if queue else "?")
            if a["o"] != "skip":
                calls.append((rec.n, cur_op, consumed, a["o"]))
                consumed = []
                sess.recv(cur_op)
        elif a["a"] == "wouldblock":
            calls.append((rec.n, cur_op, consumed, "wouldblock"))
            consumed = []
            sess.recv(cur_op)
    sess.close()
    return first, rec.n, calls
