"""Independent interpretation of the uninterpreted symbols of the specification:
H / HMAC96 (hashlib), RFC 3414 A.2 key derivation, DES-CBC (FIPS 46-3 / 81), AES-128-CFB128 (FIPS 197 / SP 800-38A).
Pure Python, self-tested on published vectors and cross-checked against the `openssl` CLI when present.
The harness only EVALUATES these on arguments chosen by the specification."""
import hashlib, hmac as _hmac, subprocess, shutil

ALG = {"md5": hashlib.md5, "sha1": hashlib.sha1}
KEYLEN = {"md5": 16, "sha1": 20}


def password_to_master(alg, password):
    if not password:
        raise ValueError("empty password")
    h = ALG[alg]()
    n, rem = divmod(1048576, len(password))
    # feed in chunks
    chunk = password * max(1, 4096 // len(password))
    total = 1048576
    fed = 0
    # straightforward (fast enough): build 1 MiB
    buf = (password * (n + 1))[:total]
    h.update(buf)
    return h.digest()


def localize(alg, master, engine):
    return ALG[alg](master + engine + master).digest()


_kul_cache = {}


def kul(alg, kt, km, engine):
    """User key localized to engine. kt: 'password' | 'master' | 'localized'."""
    key = (alg, kt, bytes(km), bytes(engine))
    if key in _kul_cache:
        return _kul_cache[key]
    if kt == "password":
        r = localize(alg, _master_cached(alg, bytes(km)), bytes(engine))
    elif kt == "master":
        r = localize(alg, bytes(km), bytes(engine))
    else:
        r = bytes(km)
    _kul_cache[key] = r
    return r


_master_cache = {}


def _master_cached(alg, pw):
    k = (alg, pw)
    if k not in _master_cache:
        _master_cache[k] = password_to_master(alg, pw)
    return _master_cache[k]


def hmac96(alg, key, msg):
    return _hmac.new(bytes(key), bytes(msg), ALG[alg]).digest()[:12]


# ----------------------------------------------------------------------------- DES
_PC1 = [57, 49, 41, 33, 25, 17, 9, 1, 58, 50, 42, 34, 26, 18, 10, 2, 59, 51, 43, 35, 27, 19, 11, 3, 60, 52, 44, 36,
        63, 55, 47, 39, 31, 23, 15, 7, 62, 54, 46, 38, 30, 22, 14, 6, 61, 53, 45, 37, 29, 21, 13, 5, 28, 20, 12, 4]
_PC2 = [14, 17, 11, 24, 1, 5, 3, 28, 15, 6, 21, 10, 23, 19, 12, 4, 26, 8, 16, 7, 27, 20, 13, 2,
        41, 52, 31, 37, 47, 55, 30, 40, 51, 45, 33, 48, 44, 49, 39, 56, 34, 53, 46, 42, 50, 36, 29, 32]
_SHIFTS = [1, 1, 2, 2, 2, 2, 2, 2, 1, 2, 2, 2, 2, 2, 2, 1]
_IP = [58, 50, 42, 34, 26, 18, 10, 2, 60, 52, 44, 36, 28, 20, 12, 4, 62, 54, 46, 38, 30, 22, 14, 6, 64, 56, 48, 40, 32, 24, 16, 8,
       57, 49, 41, 33, 25, 17, 9, 1, 59, 51, 43, 35, 27, 19, 11, 3, 61, 53, 45, 37, 29, 21, 13, 5, 63, 55, 47, 39, 31, 23, 15, 7]
_FP = [40, 8, 48, 16, 56, 24, 64, 32, 39, 7, 47, 15, 55, 23, 63, 31, 38, 6, 46, 14, 54, 22, 62, 30, 37, 5, 45, 13, 53, 21, 61, 29,
       36, 4, 44, 12, 52, 20, 60, 28, 35, 3, 43, 11, 51, 19, 59, 27, 34, 2, 42, 10, 50, 18, 58, 26, 33, 1, 41, 9, 49, 17, 57, 25]
_E = [32, 1, 2, 3, 4, 5, 4, 5, 6, 7, 8, 9, 8, 9, 10, 11, 12, 13, 12, 13, 14, 15, 16, 17,
      16, 17, 18, 19, 20, 21, 20, 21, 22, 23, 24, 25, 24, 25, 26, 27, 28, 29, 28, 29, 30, 31, 32, 1]
_P = [16, 7, 20, 21, 29, 12, 28, 17, 1, 15, 23, 26, 5, 18, 31, 10, 2, 8, 24, 14, 32, 27, 3, 9, 19, 13, 30, 6, 22, 11, 4, 25]
_S = [
    [14, 4, 13, 1, 2, 15, 11, 8, 3, 10, 6, 12, 5, 9, 0, 7, 0, 15, 7, 4, 14, 2, 13, 1, 10, 6, 12, 11, 9, 5, 3, 8,
     4, 1, 14, 8, 13, 6, 2, 11, 15, 12, 9, 7, 3, 10, 5, 0, 15, 12, 8, 2, 4, 9, 1, 7, 5, 11, 3, 14, 10, 0, 6, 13],
    [15, 1, 8, 14, 6, 11, 3, 4, 9, 7, 2, 13, 12, 0, 5, 10, 3, 13, 4, 7, 15, 2, 8, 14, 12, 0, 1, 10, 6, 9, 11, 5,
     0, 14, 7, 11, 10, 4, 13, 1, 5, 8, 12, 6, 9, 3, 2, 15, 13, 8, 10, 1, 3, 15, 4, 2, 11, 6, 7, 12, 0, 5, 14, 9],
    [10, 0, 9, 14, 6, 3, 15, 5, 1, 13, 12, 7, 11, 4, 2, 8, 13, 7, 0, 9, 3, 4, 6, 10, 2, 8, 5, 14, 12, 11, 15, 1,
     13, 6, 4, 9, 8, 15, 3, 0, 11, 1, 2, 12, 5, 10, 14, 7, 1, 10, 13, 0, 6, 9, 8, 7, 4, 15, 14, 3, 11, 5, 2, 12],
    [7, 13, 14, 3, 0, 6, 9, 10, 1, 2, 8, 5, 11, 12, 4, 15, 13, 8, 11, 5, 6, 15, 0, 3, 4, 7, 2, 12, 1, 10, 14, 9,
     10, 6, 9, 0, 12, 11, 7, 13, 15, 1, 3, 14, 5, 2, 8, 4, 3, 15, 0, 6, 10, 1, 13, 8, 9, 4, 5, 11, 12, 7, 2, 14],
    [2, 12, 4, 1, 7, 10, 11, 6, 8, 5, 3, 15, 13, 0, 14, 9, 14, 11, 2, 12, 4, 7, 13, 1, 5, 0, 15, 10, 3, 9, 8, 6,
     4, 2, 1, 11, 10, 13, 7, 8, 15, 9, 12, 5, 6, 3, 0, 14, 11, 8, 12, 7, 1, 14, 2, 13, 6, 15, 0, 9, 10, 4, 5, 3],
    [12, 1, 10, 15, 9, 2, 6, 8, 0, 13, 3, 4, 14, 7, 5, 11, 10, 15, 4, 2, 7, 12, 9, 5, 6, 1, 13, 14, 0, 11, 3, 8,
     9, 14, 15, 5, 2, 8, 12, 3, 7, 0, 4, 10, 1, 13, 11, 6, 4, 3, 2, 12, 9, 5, 15, 10, 11, 14, 1, 7, 6, 0, 8, 13],
    [4, 11, 2, 14, 15, 0, 8, 13, 3, 12, 9, 7, 5, 10, 6, 1, 13, 0, 11, 7, 4, 9, 1, 10, 14, 3, 5, 12, 2, 15, 8, 6,
     1, 4, 11, 13, 12, 3, 7, 14, 10, 15, 6, 8, 0, 5, 9, 2, 6, 11, 13, 8, 1, 4, 10, 7, 9, 5, 0, 15, 14, 2, 3, 12],
    [13, 2, 8, 4, 6, 15, 11, 1, 10, 9, 3, 14, 5, 0, 12, 7, 1, 15, 13, 8, 10, 3, 7, 4, 12, 5, 6, 11, 0, 14, 9, 2,
     7, 11, 4, 1, 9, 12, 14, 2, 0, 6, 10, 13, 15, 3, 5, 8, 2, 1, 14, 7, 4, 10, 8, 13, 15, 12, 9, 0, 3, 5, 6, 11],
]


def _perm(v, table, nbits):
    out = 0
    for t in table:
        out = (out << 1) | ((v >> (nbits - t)) & 1)
    return out


_des_keys = {}


def _des_subkeys(key):
    key = bytes(key)
    if key in _des_keys:
        return _des_keys[key]
    k = _perm(int.from_bytes(key, "big"), _PC1, 64)
    c, d = k >> 28, k & 0xFFFFFFF
    ks = []
    for s in _SHIFTS:
        c = ((c << s) | (c >> (28 - s))) & 0xFFFFFFF
        d = ((d << s) | (d >> (28 - s))) & 0xFFFFFFF
        ks.append(_perm((c << 28) | d, _PC2, 56))
    _des_keys[key] = ks
    return ks


def _des_block(block, ks):
    v = _perm(int.from_bytes(block, "big"), _IP, 64)
    l, r = v >> 32, v & 0xFFFFFFFF
    for k in ks:
        e = _perm(r, _E, 32) ^ k
        f = 0
        for i in range(8):
            six = (e >> (42 - 6 * i)) & 0x3F
            row = ((six >> 4) & 2) | (six & 1)
            col = (six >> 1) & 0xF
            f = (f << 4) | _S[i][row * 16 + col]
        f = _perm(f, _P, 32)
        l, r = r, l ^ f
    return _perm((r << 32) | l, _FP, 64).to_bytes(8, "big")


def des_cbc_encrypt(key, iv, data):
    assert len(key) == 8 and len(iv) == 8 and len(data) % 8 == 0
    ks = _des_subkeys(key)
    out, prev = b"", bytes(iv)
    for i in range(0, len(data), 8):
        blk = bytes(a ^ b for a, b in zip(data[i:i + 8], prev))
        prev = _des_block(blk, ks)
        out += prev
    return out


def des_cbc_decrypt(key, iv, data):
    assert len(key) == 8 and len(iv) == 8 and len(data) % 8 == 0
    ks = _des_subkeys(key)[::-1]
    out, prev = b"", bytes(iv)
    for i in range(0, len(data), 8):
        c = bytes(data[i:i + 8])
        p = _des_block(c, ks)
        out += bytes(a ^ b for a, b in zip(p, prev))
        prev = c
    return out


# ----------------------------------------------------------------------------- AES-128
_SBOX = None


def _mk_sbox():
    global _SBOX
    # multiplicative inverse in GF(2^8) + affine map
    exp, log = [0] * 512, [0] * 256
    x = 1
    for i in range(255):
        exp[i] = x
        log[x] = i
        x ^= (x << 1) ^ (0x11B if x & 0x80 else 0)
        x &= 0xFF
    for i in range(255, 512):
        exp[i] = exp[i - 255]
    sb = [0] * 256
    for a in range(256):
        inv = 0 if a == 0 else exp[255 - log[a]]
        s = inv
        for _ in range(4):
            inv = ((inv << 1) | (inv >> 7)) & 0xFF
            s ^= inv
        sb[a] = s ^ 0x63
    _SBOX = sb


def _xt(a):
    a <<= 1
    return (a ^ 0x1B) & 0xFF if a & 0x100 else a


_aes_keys = {}


def _aes_expand(key):
    key = bytes(key)
    if key in _aes_keys:
        return _aes_keys[key]
    if _SBOX is None:
        _mk_sbox()
    w = [list(key[i:i + 4]) for i in range(0, 16, 4)]
    rcon = 1
    for i in range(4, 44):
        t = list(w[i - 1])
        if i % 4 == 0:
            t = t[1:] + t[:1]
            t = [_SBOX[b] for b in t]
            t[0] ^= rcon
            rcon = _xt(rcon)
        w.append([a ^ b for a, b in zip(w[i - 4], t)])
    rks = [sum(w[4 * r:4 * r + 4], []) for r in range(11)]
    _aes_keys[key] = rks
    return rks


def aes_encrypt_block(key, block):
    rks = _aes_expand(key)
    s = [a ^ b for a, b in zip(block, rks[0])]
    for rnd in range(1, 11):
        s = [_SBOX[b] for b in s]
        # shift rows (column-major state)
        s = [s[(i + 4 * (i % 4)) % 16] for i in range(16)]
        if rnd < 10:
            t = []
            for c in range(4):
                a = s[4 * c:4 * c + 4]
                t += [_xt(a[0]) ^ _xt(a[1]) ^ a[1] ^ a[2] ^ a[3],
                      a[0] ^ _xt(a[1]) ^ _xt(a[2]) ^ a[2] ^ a[3],
                      a[0] ^ a[1] ^ _xt(a[2]) ^ _xt(a[3]) ^ a[3],
                      _xt(a[0]) ^ a[0] ^ a[1] ^ a[2] ^ _xt(a[3])]
            s = t
        s = [a ^ b for a, b in zip(s, rks[rnd])]
    return bytes(s)


def aes_cfb_encrypt(key, iv, data):
    out, prev = b"", bytes(iv)
    for i in range(0, len(data), 16):
        ks = aes_encrypt_block(key, prev)
        blk = bytes(a ^ b for a, b in zip(data[i:i + 16], ks))
        out += blk
        prev = blk if len(blk) == 16 else prev
    return out


def aes_cfb_decrypt(key, iv, data):
    out, prev = b"", bytes(iv)
    for i in range(0, len(data), 16):
        ks = aes_encrypt_block(key, prev)
        c = bytes(data[i:i + 16])
        out += bytes(a ^ b for a, b in zip(c, ks))
        prev = c if len(c) == 16 else prev
    return out


# ----------------------------------------------------------------------------- USM privacy (RFC 3414 8 / RFC 3826)
def usm_decrypt(cipher, key16, salt, boots4, time4, data):
    """Returns plaintext bytes, or None when the arguments cannot be processed (wrong salt/ciphertext size)."""
    key16, salt, data = bytes(key16), bytes(salt), bytes(data)
    if len(key16) < 16:
        return None
    if cipher == "des":
        if len(salt) != 8 or len(data) % 8 != 0 or not data:
            return None
        iv = bytes(a ^ b for a, b in zip(key16[8:16], salt))
        return des_cbc_decrypt(key16[:8], iv, data)
    if cipher == "aes":
        if len(salt) != 8:
            return None
        iv = bytes(boots4) + bytes(time4) + salt
        return aes_cfb_decrypt(key16[:16], iv, data)
    return None


def usm_encrypt(cipher, key16, salt, boots4, time4, plain, pad_style="zero"):
    """pad_style (DES only; RFC 3414 8.1.1.2: "the actual pad value is irrelevant"): zero | pkcs (pad length) | ff | mixed"""
    key16, salt, plain = bytes(key16), bytes(salt), bytes(plain)
    if cipher == "des":
        pad = (-len(plain)) % 8
        fill = {"zero": b"\0" * pad, "pkcs": bytes([pad]) * pad, "ff": b"\xff" * pad, "mixed": bytes((0x5A + 7 * i) % 256 for i in range(pad))}[pad_style]
        iv = bytes(a ^ b for a, b in zip(key16[8:16], salt))
        return des_cbc_encrypt(key16[:8], iv, plain + fill)
    iv = bytes(boots4) + bytes(time4) + salt
    return aes_cfb_encrypt(key16[:16], iv, plain)


def _openssl(args, data):
    p = subprocess.run(["openssl"] + args, input=data, capture_output=True)
    if p.returncode != 0:
        return None
    return p.stdout


def selftest():
    # RFC 3414 A.3 vectors
    e = bytes.fromhex("000000000000000000000002")
    assert password_to_master("md5", b"maplesyrup").hex() == "9faf3283884e92834ebc9847d8edd963"
    assert localize("md5", password_to_master("md5", b"maplesyrup"), e).hex() == "526f5eed9fcce26f8964c2930787d82b"
    assert password_to_master("sha1", b"maplesyrup").hex() == "9fb5cc0381497b3793528939ff788d5d79145211"
    assert localize("sha1", password_to_master("sha1", b"maplesyrup"), e).hex() == "6695febc9288e36282235fc7151f128497b38f3f"
    # FIPS 46 classic vector
    assert _des_block(bytes.fromhex("0123456789abcde7"), _des_subkeys(bytes.fromhex("0123456789abcdef"))).hex() == "c95744256a5ed31d"
    # FIPS 197 appendix B
    assert aes_encrypt_block(bytes.fromhex("2b7e151628aed2a6abf7158809cf4f3c"), bytes.fromhex("3243f6a8885a308d313198a2e0370734")).hex() == "3925841d02dc09fbdc118597196a0b32"
    # SP 800-38A F.3.13 CFB128-AES128
    k = bytes.fromhex("2b7e151628aed2a6abf7158809cf4f3c")
    iv = bytes.fromhex("000102030405060708090a0b0c0d0e0f")
    pt = bytes.fromhex("6bc1bee22e409f96e93d7e117393172aae2d8a571e03ac9c9eb76fac45af8e51")
    ct = aes_cfb_encrypt(k, iv, pt)
    assert ct.hex() == "3b3fd92eb72dad20333449f8e83cfb4ac8a64537a0b3a93fcde3cdad9f1ce58b"
    assert aes_cfb_decrypt(k, iv, ct) == pt
    # partial last block
    assert aes_cfb_decrypt(k, iv, aes_cfb_encrypt(k, iv, pt[:21])) == pt[:21]
    dk, div = bytes(range(1, 9)), bytes(range(9, 17))
    dct = des_cbc_encrypt(dk, div, pt)
    assert des_cbc_decrypt(dk, div, dct) == pt
    if shutil.which("openssl"):
        r = _openssl(["enc", "-des-cbc", "-provider", "legacy", "-provider", "default", "-nopad", "-K", dk.hex(), "-iv", div.hex()], pt)
        if r is not None:
            assert r == dct, "DES-CBC differs from openssl"
        r = _openssl(["enc", "-aes-128-cfb", "-K", k.hex(), "-iv", iv.hex()], pt[:21])
        if r is not None:
            assert r == aes_cfb_encrypt(k, iv, pt[:21]), "AES-CFB differs from openssl"


if __name__ == "__main__":
    selftest()
    print("refcrypto ok")
