"""State-graph utilities for the 'one implementation test per transition' method."""
import json
from collections import deque


def key(x):
    return json.dumps(x, sort_keys=True)


def shortest_paths(transitions, init_key):
    """transitions: list of dicts with 'from','to' (JSON-able). Returns {state_key: [transition,...]}."""
    adj = {}
    for t in transitions:
        adj.setdefault(key(t["from"]), []).append(t)
    paths = {init_key: []}
    q = deque([init_key])
    while q:
        s = q.popleft()
        for t in adj.get(s, []):
            k = key(t["to"])
            if k not in paths:
                paths[k] = paths[s] + [t]
                q.append(k)
    return paths
