"""Tagged canonical projection of Python values / exceptions for the ndjson trace (no bare big ints, no null)."""
import struct


def bigint(v):
    m = abs(v)
    return {"neg": v < 0, "mag": list(m.to_bytes((m.bit_length() + 7) // 8, "big")) if m else []}


def proj(v):
    if v is None:
        return {"t": "none"}
    if isinstance(v, bool):
        return {"t": "bool", "v": v}
    if isinstance(v, int):
        d = bigint(v)
        d["t"] = "int"
        return d
    if isinstance(v, (bytes, bytearray)):
        return {"t": "bytes", "v": list(v)}
    if isinstance(v, str):
        return {"t": "str", "v": list(v.encode("utf-8", "surrogatepass"))}
    if isinstance(v, float):
        return {"t": "float", "bits": list(struct.pack(">d", v))}
    if isinstance(v, tuple):
        return {"t": "tuple", "v": [proj(x) for x in v]}
    if isinstance(v, list):
        return {"t": "list", "v": [proj(x) for x in v]}
    if isinstance(v, dict):
        return {"t": "dict", "items": [[proj(k), proj(x)] for k, x in v.items()]}
    return {"t": "other", "repr": list(repr(v).encode())[:100]}


_EXPORTED = None


def _public_name(cls):
    """the name under which the library exports an exception class (gufo.snmp.SnmpDecodeError is the Rust
    type PySnmpDecodeError); other classes keep their own name"""
    global _EXPORTED
    if _EXPORTED is None:
        _EXPORTED = {}
        try:
            from gufo.snmp import _fast
            for n in ("SnmpError", "SnmpDecodeError", "SnmpEncodeError", "SnmpAuthError", "NoSuchInstance"):
                _EXPORTED[getattr(_fast, n)] = n
        except Exception:
            pass
    return _EXPORTED.get(cls, cls.__name__)


def exc_info(e):
    """(class name, base class names, is Exception subclass)"""
    return _public_name(type(e)), [_public_name(c) for c in type(e).__mro__[1:]], isinstance(e, Exception)


def text(s):
    return list(s.encode("utf-8", "surrogatepass"))
