"""Calls into the code under test that may never return (C01: 'never fails to return')."""
import threading


def call(fn, limit):
    """run fn() in a daemon thread; ('ok', result) or ('hang', None) when it has not returned after `limit` seconds (the thread is
    abandoned - it may spin for the rest of the process).  Exceptions of fn propagate."""
    box = {}

    def work():
        try:
            box["r"] = fn()
        except BaseException as e:  # noqa
            box["e"] = e
    t = threading.Thread(target=work, daemon=True)
    t.start()
    t.join(limit)
    if t.is_alive():
        return "hang", None
    if "e" in box:
        raise box["e"]
    return "ok", box.get("r")
