"""Evidence, replay files, known findings, exit codes."""
import json, os, sys, time
from .env import EVIDENCE, REPLAYS, VERIF, SEED, stable_hash, ToolError

LEVEL = "model_checking"


class Check:
    """Collects what a run covered and what it found; writes evidence; decides the exit code."""

    def __init__(self, pid, tier):
        self.pid = pid
        self.tier = tier
        self.t0 = time.time()
        self.states = 0
        self.transitions = 0
        self.traces = 0
        self.evaluations = 0
        self.distinct = set()
        self.samples = []
        self.violations = []       # (signature, description, replay-dict)
        self.known_hits = {}
        self.assumptions = []
        self.extra = {}
        self.rule = ""
        self.tlc_runs = []
        self._confirmed = 0
        kf = os.path.join(VERIF, "known_findings.json")
        self.known = []
        self.fixed = []
        if os.path.exists(kf):
            d = json.load(open(kf))
            self.known = [k for k in d.get("findings", []) if k["property"] == pid]
            self.fixed = [k for k in d.get("fixed", []) if k["property"] == pid]

    # --- coverage bookkeeping -------------------------------------------------
    def add_tlc(self, res, name):
        self.states += res.distinct
        self.transitions += res.generated
        self.tlc_runs.append(dict(name=name, **res.summary()))

    def case(self, key=None, nontrivial=True, n=1):
        self.evaluations += n
        if nontrivial and key is not None:
            self.distinct.add(key if isinstance(key, (str, int, tuple)) else stable_hash(key))

    def sample(self, s, limit=6):
        if len(self.samples) < limit:
            self.samples.append(s)

    # --- findings ---------------------------------------------------------------
    def _known_match(self, sig):
        for k in self.known:
            m = k.get("match", {})
            if all(sig.get(a) == b for a, b in m.items()):
                return k
        return None

    def violation(self, sig, what, replay, confirm=None):
        """sig: dict (abstract signature). Known findings are reported as such, others as violations.
        confirm: for scenarios that run on real sockets in real time (client timeouts of 0.1-0.3 s against a thread / asyncio
        agent): a callable that re-runs the one scenario in isolation and returns True iff it fails again.  Such a failure is
        reported only if it fails three times in a row - a stalled scheduler must not look like a defect.  After three
        confirmed failures the rest of the run's failures are accepted without re-running."""
        if confirm is not None and self._confirmed < 3:
            for _ in range(2):
                ok = False
                try:
                    ok = bool(confirm())
                except ToolError:
                    raise
                except BaseException as e:  # noqa
                    raise ToolError("confirmation run failed: %s: %s" % (type(e).__name__, e))
                if not ok:
                    self.extra["unconfirmed_failures"] = self.extra.get("unconfirmed_failures", 0) + 1
                    self.extra.setdefault("unconfirmed_examples", [])
                    if len(self.extra["unconfirmed_examples"]) < 5:
                        self.extra["unconfirmed_examples"].append(what[:300])
                    return False
            self._confirmed += 1
        k = self._known_match(sig)
        if k is not None:
            kid = k["id"]
            if kid not in self.known_hits:
                self.known_hits[kid] = (k, what, 0)
            kk, w, n = self.known_hits[kid]
            self.known_hits[kid] = (kk, w, n + 1)
            return False
        self.violations.append((sig, what, replay))
        return True

    # --- finishing ----------------------------------------------------------------
    def finish(self):
        os.makedirs(EVIDENCE, exist_ok=True)
        os.makedirs(REPLAYS, exist_ok=True)
        wall = time.time() - self.t0
        cov = dict(states=max(self.states, 0), transitions=max(self.transitions, 0),
                   traces_validated_against_impl=self.traces,
                   evaluations=self.evaluations, distinct_nontrivial=len(self.distinct),
                   rule=self.rule, samples=self.samples[:8] or ["(none)"], tlc_runs=self.tlc_runs)
        cov.update(self.extra)
        ev = dict(property_id=self.pid, tier=self.tier, seed=SEED, level=LEVEL, coverage=cov,
                  assumptions=self.assumptions, wall_s=round(wall, 2), violations=len(self.violations),
                  known_findings_hit=sorted(self.known_hits))
        with open(os.path.join(EVIDENCE, self.pid + ".json"), "w") as f:
            json.dump(ev, f, indent=1, default=str)
        for kid, (k, what, n) in sorted(self.known_hits.items()):
            print("KNOWN-FINDING: property=%s %s [%s; %d case(s) this run; e.g. %s]" %
                  (self.pid, k["what"], kid, n, what))
        if self.states < 1 or self.transitions < 1:
            print("TOOL-ERROR: no TLC exploration recorded for %s" % self.pid)
            return 2
        if self.violations:
            groups = {}
            for sig, what, replay in self.violations:
                k = json.dumps(sig, sort_keys=True)
                groups[k] = groups.get(k, 0) + 1
            print("violation signatures (%d cases, %d distinct):" % (len(self.violations), len(groups)))
            for k, n in sorted(groups.items(), key=lambda x: -x[1])[:60]:
                print("  %5d  %s" % (n, k))
            seen = set()
            for sig, what, replay in self.violations[:20]:
                h = stable_hash([sig, what])
                if h in seen:
                    continue
                seen.add(h)
                path = os.path.join(REPLAYS, "%s-%s.json" % (self.pid, h))
                with open(path, "w") as f:
                    json.dump(dict(property=self.pid, signature=sig, what=what, replay=replay,
                                   seed=SEED, tier=self.tier), f, indent=1, default=str)
                print("VIOLATION property=%s replay=%s" % (self.pid, path))
                print("  what: %s" % (what,))
            return 1
        print("OK property=%s tier=%s states=%d transitions=%d traces=%d evaluations=%d distinct=%d wall=%.1fs" %
              (self.pid, self.tier, self.states, self.transitions, self.traces, self.evaluations,
               len(self.distinct), wall))
        return 0


TIMING_OUTCOMES = {"TimeoutError", "BlockingIOError", "DidNotStop"}


def timing_event(ev):
    """Only an outcome that a stalled scheduler can produce (the client's timeout expired) is worth re-running in isolation.  Any other
    failure is reported as it stands: re-running ONE scenario alone would destroy the history (earlier sessions of the process) that
    a history-dependent defect needs."""
    return (ev or {}).get("exc") in TIMING_OUTCOMES


def confirm_by_replay(replay_fn, replay_dict):
    """confirm callable for Check.violation: re-runs the scenario through the check's own replay(path) (silently)"""
    import tempfile, io, contextlib

    def run():
        with tempfile.NamedTemporaryFile("w", suffix=".json", delete=False) as f:
            json.dump(dict(replay=replay_dict), f, default=str)
            path = f.name
        try:
            buf = io.StringIO()
            with contextlib.redirect_stdout(buf):
                rc = replay_fn(path)
            return rc == 1
        finally:
            os.unlink(path)
    return run
