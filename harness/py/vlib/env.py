"""Paths, build, and common run context for all checks."""
import os, subprocess, sys, time, json, hashlib

VERIF = os.path.abspath(os.path.join(os.path.dirname(__file__), "..", "..", ".."))
REPO = os.environ.get("VERIF_REPO", "/repo")
BUILD = os.path.join(VERIF, "build")
SPEC = os.path.join(VERIF, "spec")
EVIDENCE = os.environ.get("VERIF_EVIDENCE_DIR") or os.path.join(VERIF, "evidence")
REPLAYS = os.path.join(os.environ["VERIF_EVIDENCE_DIR"], "replays") if os.environ.get("VERIF_EVIDENCE_DIR") else os.path.join(VERIF, "replays")
SEED = int(os.environ.get("VERIF_SEED", "0") or 0)


class ToolError(Exception):
    """Machinery failure (exit 2) - never reported as a violation."""


_built = None


HOOKS = "full"      # full | nostate | off  (set by build())
RSLEVEL = "full"    # full | nomsgenc | none: what the Rust replay binary could be built with against this tree


def rs_level():
    build()
    return RSLEVEL


def hooks_level():
    build()
    return HOOKS


def build():
    """Build extension + replay crate from the repo's current working tree. Returns (pkg, rsbin)."""
    global _built
    if _built:
        return _built
    t0 = time.time()
    p = subprocess.run([os.path.join(VERIF, "bin", "build")], capture_output=True, text=True)
    if p.returncode != 0:
        sys.stderr.write(p.stdout + p.stderr)
        raise ToolError("build failed")
    pkg = rsbin = None
    global HOOKS, RSLEVEL
    for line in p.stdout.splitlines():
        if line.startswith("PKG="):
            pkg = line[4:].strip()
        if line.startswith("RSBIN="):
            rsbin = line[6:].strip()
        if line.startswith("HOOKS="):
            HOOKS = line[6:].strip()
        if line.startswith("RSLEVEL="):
            RSLEVEL = line[8:].strip()
    if HOOKS != "full":
        sys.stderr.write("NOTE: verification hooks level '%s' for this tree (see bin/build)\n" % HOOKS)
    if not pkg or not rsbin:
        raise ToolError("build produced no paths")
    if pkg not in sys.path:
        sys.path.insert(0, pkg)
    _built = (pkg, rsbin, time.time() - t0)
    return _built


def pkg_path():
    return build()[0]


def replay_bin():
    return os.path.join(build()[1], "replay")


_scratch = []


def scratch(name):
    d = os.path.join(BUILD, "work", name + "." + str(os.getpid()))
    os.makedirs(d, exist_ok=True)
    if d not in _scratch:
        _scratch.append(d)
    return d


def _cleanup():
    import shutil
    if os.environ.get("VERIF_KEEP_WORK"):
        return
    for d in _scratch:
        shutil.rmtree(d, ignore_errors=True)


import atexit
atexit.register(_cleanup)


def stable_hash(obj):
    return hashlib.sha1(json.dumps(obj, sort_keys=True, default=str).encode()).hexdigest()[:12]
