"""Walk drivers: honest (RFC 3416) and scripted (adversarial) agents, sync and async SnmpSession iteration."""
import asyncio
from . import apidrv, refcodec as rc, agent as ag, rawdrv
from .project import proj, exc_info, text, bigint


def arcs_of(content):
    return rc.oid_arcs(bytes(content))


def honest_responder(agent, cfgref, mib, cap, value_of=None):
    """mib: list of OID contents sorted in lexicographic order. Replies per RFC 3416 (v1: noSuchName at the end)."""
    entries = [(arcs_of(n), bytes(n)) for n in mib]
    value_of = value_of or (lambda i, name: ("int", 1000 + i) if i % 3 else ("octets", b"v%d" % i))

    def after(arcs):
        return [(i, e) for i, e in enumerate(entries) if e[0] > arcs]

    def respond(req):
        cfg = cfgref[0]
        if req.broken or not req.names:
            return []
        name = bytes(req.names[0])
        arcs = arcs_of(name)
        if req.ptype == "get":
            vbs = []
            for nm in req.names:
                hit = [(i, e) for i, e in enumerate(entries) if e[1] == bytes(nm)]
                vbs.append((bytes(nm), value_of(hit[0][0], bytes(nm)) if hit else (("null",) if cfg.ver == "v1" else ("noSuchInstance",))))
            return [(agent.reply(cfg, req, vbs), [])]
        if req.ptype == "getnext":
            nx = after(arcs)
            if nx:
                i, (a, n) = nx[0]
                return [(agent.reply(cfg, req, [(n, value_of(i, n))]), [])]
            if cfg.ver == "v1":
                return [(agent.reply(cfg, req, [(name, ("null",))], es=2, ei=1), [])]
            return [(agent.reply(cfg, req, [(name, ("endOfMibView",))]), [])]
        if req.ptype == "getbulk":
            m = max(0, min(req.f3, cap))
            nx = after(arcs)[:m]
            vbs = [(n, value_of(i, n)) for i, (a, n) in nx]
            if len(vbs) < m:
                last = vbs[-1][0] if vbs else name
                vbs += [(last, ("endOfMibView",))] * (m - len(vbs))
            return [(agent.reply(cfg, req, vbs), [])]
        return []
    return respond


def scripted_responder(agent, cfgref, replies, names):
    """replies: list of replies, each a list of {oid: arcs-in-model, kind}; names: model OID tuple -> content."""
    state = {"i": 0}

    def respond(req):
        cfg = cfgref[0]
        if req.broken:
            return []
        if state["i"] >= len(replies):
            # script exhausted: a terminal reply (no varbinds) so that a walk that goes on is not left to time out
            state["extra"] = state.get("extra", 0) + 1
            if replies and isinstance(replies[-1], str) and replies[-1].endswith("-forever"):
                if state["extra"] > 30:
                    return []                                   # ... then silence: the client's timeout ends whatever still runs
                return [(agent.reply(cfg, req, [], es={"toobig-forever": 1, "generr-forever": 5}[replies[-1]], ei=0), [])]
            return [(agent.reply(cfg, req, []), [])]
        r = replies[state["i"]]
        state["i"] += 1
        if isinstance(r, str):
            # replies that carry no data values at all: an error-status and an empty varbind list, or nothing (the datagram is lost)
            if r == "drop":
                return []
            es = {"toobig": 1, "nosuchname": 2, "generr": 5, "toobig-forever": 1, "generr-forever": 5}[r]
            return [(agent.reply(cfg, req, [], es=es, ei=0), [])]
        vbs = []
        for k, x in enumerate(r):
            n = names[tuple(x["oid"])]
            kind = x["kind"]
            if kind == "val":
                v = ("int", 100 + k)
            elif kind == "null":
                v = ("null",)
            else:
                v = [("noSuchObject",), ("noSuchInstance",), ("endOfMibView",)][(k + state["i"]) % 3]
            vbs.append((n, v))
        return [(agent.reply(cfg, req, vbs), [])]
    return respond


def _start(api, op, base_text, maxrep, honest, mib):
    api.ctx.op, api.ctx.walk, api.ctx.maxrep, api.ctx.oids = op, True, maxrep or 0, [base_text]
    api.rec2.emit(dict(ev="WalkStart", sid=api.sid, op=op, base=text(base_text), maxrep=bigint(maxrep or 0), honest=bool(honest),
                       mib=[list(n) for n in (mib or [])]))


def _yield(api, pair):
    api.rec2.emit(dict(ev="Yield", sid=api.sid, res=proj(pair), interp=[]))


def _end(api, e):
    name, bases, _ = exc_info(e)
    api.rec2.emit(dict(ev="WalkEnd", sid=api.sid, exc=name, bases=bases))


STYLES = ["next", "for", "peek-for", "islice"]


def _reiter(style, n):
    """how callers consume a walk: next() only; a for loop (iter() once); a first row by next() and the rest in a for loop (iter() after
    one row); paging with islice (iter() before every page of two rows).  iter() / aiter() of a walk returns the walk where it is."""
    return (style == "for" and n == 0) or (style == "peek-for" and n == 1) or (style == "islice" and n % 2 == 0)


def walk_sync(api, op, base_text, maxrep=None, honest=False, mib=None, limit=200, fetch=False, style="next"):
    """op: 'getnext' | 'getbulk'; fetch=True uses session.fetch() (the op actually used must then equal `op`)."""
    _start(api, op, base_text, maxrep, honest, mib)
    s = api.session
    try:
        it = s.fetch(base_text) if fetch else (s.getnext(base_text) if op == "getnext" else s.getbulk(base_text, maxrep))
    except BaseException as e:  # noqa  (e.g. ValueError for the base OID)
        _end(api, e)
        api.ctx.walk = False
        return []
    out = []
    n = 0
    while True:
        try:
            if _reiter(style, n):
                it = iter(it)
            pair = next(it)
        except BaseException as e:  # noqa - StopIteration, TimeoutError, SnmpError, PanicException: all data
            _end(api, e)
            break
        _yield(api, pair)
        out.append(pair)
        n += 1
        if n >= limit:
            api.rec2.emit(dict(ev="WalkEnd", sid=api.sid, exc="DidNotStop", bases=[]))
            break
    api.ctx.walk = False
    return out


async def walk_async(api, op, base_text, maxrep=None, honest=False, mib=None, limit=200, fetch=False, style="next"):
    _start(api, op, base_text, maxrep, honest, mib)
    s = api.session
    try:
        it = s.fetch(base_text) if fetch else (s.getnext(base_text) if op == "getnext" else s.getbulk(base_text, maxrep))
        ai = it.__aiter__()
    except BaseException as e:  # noqa
        _end(api, e)
        api.ctx.walk = False
        return []
    out = []
    n = 0
    while True:
        try:
            if _reiter(style, n) and n > 0:
                ai = ai.__aiter__()
            pair = await ai.__anext__()
        except BaseException as e:  # noqa
            if type(e).__name__ == "TimeoutError":
                apidrv.api_result_event(api.rec2, api.sid, op, e)
            _end(api, e)
            break
        _yield(api, pair)
        out.append(pair)
        n += 1
        if n >= limit:
            api.rec2.emit(dict(ev="WalkEnd", sid=api.sid, exc="DidNotStop", bases=[]))
            break
    api.ctx.walk = False
    return out


# ---------------------------------------------------------------------------------------------------------------
# several walks in one process: abandoned, nested, interleaved (each walk is judged as its own trace session)

class _Walker:
    def __init__(self, api, sid, op, base, maxrep, mib, fetch=False):
        self.api, self.sid, self.op, self.base, self.maxrep, self.mib, self.fetch = api, sid, op, base, maxrep, mib, fetch
        self.it = None
        self.done = False
        self.n = 0

    def _begin(self):
        apidrv.use_sid(self.api, self.sid)
        _start(self.api, self.op, self.base, self.maxrep, True, self.mib)
        s = self.api.session
        return s.fetch(self.base) if self.fetch else (s.getnext(self.base) if self.op == "getnext" else s.getbulk(self.base, self.maxrep))

    def _resume(self):
        apidrv.use_sid(self.api, self.sid)
        self.api.ctx.op, self.api.ctx.walk, self.api.ctx.maxrep, self.api.ctx.oids = self.op, True, self.maxrep or 0, [self.base]

    def step(self):
        """one next(); False when the walk is over"""
        if self.done:
            return False
        try:
            if self.it is None:
                self.it = iter(self._begin())
            else:
                self._resume()
            pair = next(self.it)
        except BaseException as e:  # noqa
            apidrv.use_sid(self.api, self.sid)
            _end(self.api, e)
            self.done = True
            return False
        _yield(self.api, pair)
        self.n += 1
        if self.n > 300:
            self.api.rec2.emit(dict(ev="WalkEnd", sid=self.sid, exc="DidNotStop", bases=[]))
            self.done = True
            return False
        return True

    async def astep(self):
        if self.done:
            return False
        try:
            if self.it is None:
                self.it = self._begin().__aiter__()
            else:
                self._resume()
            pair = await self.it.__anext__()
        except BaseException as e:  # noqa
            apidrv.use_sid(self.api, self.sid)
            if type(e).__name__ == "TimeoutError":
                apidrv.api_result_event(self.api.rec2, self.sid, self.op, e)
            _end(self.api, e)
            self.done = True
            return False
        _yield(self.api, pair)
        self.n += 1
        if self.n > 300:
            self.api.rec2.emit(dict(ev="WalkEnd", sid=self.sid, exc="DidNotStop", bases=[]))
            self.done = True
            return False
        return True


def multi_walk_plan(kind):
    """list of (walker index, steps or None=to the end) executed in order; walker 0 walks subtree A, walker 1 subtree B"""
    if kind == "abandon":              # A is left after two rows, then B is walked completely
        return [(0, 2), (1, None)]
    if kind == "nested":               # inside A's loop, after its first row, B is walked completely; then A goes on
        return [(0, 1), (1, None), (0, None)]
    if kind == "interleave":           # A and B advanced alternately
        return [(0, 1), (1, 1)] * 40 + [(0, None), (1, None)]
    if kind == "abandon-twice":
        return [(0, 3), (1, 1), (0, None)]
    raise ValueError(kind)


def multi_walk_sync(apis, specs, kind):
    """apis: one or two SyncApi (the walkers use apis[i % len(apis)]); specs: [(op, base, maxrep, mib, fetch)] x 2"""
    ws = [_Walker(apis[i % len(apis)], i + 1, *specs[i]) for i in range(2)]
    for wi, steps in multi_walk_plan(kind):
        k = 0
        while (steps is None or k < steps) and ws[wi].step():
            k += 1


async def multi_walk_async(apis, specs, kind):
    ws = [_Walker(apis[i % len(apis)], i + 1, *specs[i]) for i in range(2)]
    for wi, steps in multi_walk_plan(kind):
        k = 0
        while (steps is None or k < steps) and await ws[wi].astep():
            k += 1
