"""Run TLC / SANY / Apalache and parse what they print."""
import os, re, subprocess, json, shutil, time
from .env import SPEC, BUILD, ToolError, scratch

JAR = "/opt/veriftools/tla/tla2tools.jar:/opt/veriftools/tla/CommunityModules-deps.jar"


import threading
_meta_seq = 0
_meta_lock = threading.Lock()


class TlcResult:
    def __init__(self):
        self.ok = False            # completed without error
        self.violation = None      # text of invariant/property violation, if any
        self.generated = 0
        self.distinct = 0
        self.depth = 0
        self.printed = []          # values printed with PrintT that parse as JSON
        self.raw_printed = []
        self.coverage = {}         # action name -> (distinct, generated)
        self.stdout = ""
        self.wall = 0.0
        self.error_trace = []

    def summary(self):
        return dict(ok=self.ok, generated=self.generated, distinct=self.distinct, depth=self.depth,
                    wall=round(self.wall, 2), actions=self.coverage)


def _parse(out, res):
    res.stdout = out
    m = None
    for m in re.finditer(r"(\d+) states generated, (\d+) distinct states found", out):
        pass
    if m:
        res.generated, res.distinct = int(m.group(1)), int(m.group(2))
    m = re.search(r"The depth of the complete state graph search is (\d+)", out)
    if m:
        res.depth = int(m.group(1))
    # simulation mode
    m = re.search(r"The number of states generated: (\d+)", out)
    if m and not res.generated:
        res.generated = int(m.group(1))
        res.distinct = res.distinct or 0
    if "Model checking completed. No error has been found." in out or "Finished in" in out and "Error:" not in out:
        res.ok = True
    if "Error:" in out or "is violated" in out or "Deadlock reached" in out:
        res.ok = False
        m = re.search(r"Error: (.*)", out)
        res.violation = m.group(1).strip() if m else "error"
    for m in re.finditer(r"^<(\w+) line \d+, col \d+ to line \d+, col \d+ of module (\w+)>: (\d+):(\d+)", out, re.M):
        name = m.group(1)
        d, g = int(m.group(3)), int(m.group(4))
        pd, pg = res.coverage.get(name, (0, 0))
        res.coverage[name] = (max(pd, d), max(pg, g))
    for line in out.splitlines():
        s = line.strip()
        if s.startswith('"') and s.endswith('"') and len(s) > 2:
            try:
                inner = json.loads(s)
                res.raw_printed.append(inner)
                if inner[:1] in "{[":
                    res.printed.append(json.loads(inner))
            except Exception:
                pass


def run_tlc(module, cfg, workers=4, env=None, timeout=600, simulate=None, depth=None, seed=None,
            coverage=True, deque=False, xmx="4g", dfid=None, extra=None, cwd=None, aril=None):
    """module, cfg: file names relative to spec dir (or absolute)."""
    cwd = cwd or SPEC
    global _meta_seq
    with _meta_lock:
        _meta_seq += 1
        seq = _meta_seq
    meta = os.path.join(scratch("tlc-" + os.path.basename(module).replace(".tla", "")), "m%d" % seq)
    os.makedirs(meta, exist_ok=True)
    if deque:
        # trace validation: many small single-worker JVMs run side by side; a serial collector, C1 only
        # and a small fingerprint set avoid most of the start-up and page-fault cost (measured 31 s -> 12 s)
        cmd = ["java", "-XX:+UseSerialGC", "-XX:TieredStopAtLevel=1", "-Xss512m", "-Xms512m", "-Xmx" + xmx,
               "-Dtlc2.tool.queue.IStateQueue=StateDeque"]
    else:
        cmd = ["java", "-XX:+UseParallelGC", "-Xss1g", "-Xmx" + xmx]
    cmd += ["-cp", JAR, "tlc2.TLC", "-workers", str(workers), "-metadir", meta, "-cleanup",
            "-noGenerateSpecTE", "-checkpoint", "0", "-config", cfg]   # no checkpoints: runs are never resumed, and the depth-first queue (StateDeque) cannot write one (a chunk that runs for 30 min would die)
    if deque:
        cmd += ["-fpmem", "0.05"]
    if coverage and not simulate:
        cmd += ["-coverage", "1"]
    if simulate:
        cmd += ["-simulate", "num=%d" % simulate]
        if depth:
            cmd += ["-depth", str(depth)]
    if seed is not None:
        cmd += ["-seed", str(seed)]
    if aril is not None:
        cmd += ["-aril", str(aril)]
    if dfid:
        cmd += ["-dfid", str(dfid)]
    if extra:
        cmd += extra
    cmd.append(module)
    e = dict(os.environ)
    e.pop("JAVA_TOOL_OPTIONS", None)
    if env:
        e.update({k: str(v) for k, v in env.items()})
    t0 = time.time()
    try:
        p = subprocess.run(cmd, cwd=cwd, env=e, capture_output=True, text=True, timeout=timeout)
    except subprocess.TimeoutExpired:
        shutil.rmtree(meta, ignore_errors=True)
        raise ToolError("TLC timeout after %ss: %s %s" % (timeout, module, cfg))
    shutil.rmtree(meta, ignore_errors=True)
    res = TlcResult()
    res.wall = time.time() - t0
    _parse(p.stdout + p.stderr, res)
    res.returncode = p.returncode
    return res


def require_ok(res, what):
    """TLC must complete with no error; otherwise it is a tool error unless caller handles violations."""
    if not res.ok:
        tail = "\n".join(res.stdout.splitlines()[-60:])
        raise ToolError("TLC failed for %s: %s\n%s" % (what, res.violation, tail))


def require_coverage(res, actions, what):
    missing = [a for a in actions if res.coverage.get(a, (0, 0))[1] == 0]
    if missing:
        raise ToolError("vacuity: actions never taken in %s: %s" % (what, missing))


def sany(module, cwd=None):
    p = subprocess.run(["java", "-cp", JAR, "tla2sany.SANY", module], cwd=cwd or SPEC,
                       capture_output=True, text=True, timeout=120)
    ok = p.returncode == 0 and "Semantic errors" not in p.stdout and "Parse Error" not in p.stdout \
        and "Fatal errors" not in p.stdout and "*** Errors" not in p.stdout
    return ok, p.stdout + p.stderr


def run_apalache(args, timeout=900, cwd=None):
    out_dir = scratch("apalache")
    cmd = ["apalache-mc"] + args[:1] + ["--out-dir=" + out_dir] + args[1:]
    t0 = time.time()
    try:
        p = subprocess.run(cmd, cwd=cwd or SPEC, capture_output=True, text=True, timeout=timeout)
    except subprocess.TimeoutExpired:
        shutil.rmtree(out_dir, ignore_errors=True)
        raise ToolError("apalache timeout")
    shutil.rmtree(out_dir, ignore_errors=True)
    out = p.stdout + p.stderr
    return ("NoError" in out or "EXITCODE: OK" in out) and p.returncode == 0, out, time.time() - t0
