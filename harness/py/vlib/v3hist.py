"""Replay of Privacy.tla behaviours (histories of sends / encrypted replies / plaintext reports / timeouts /
set_keys) on one real v3 socket."""
from . import rawdrv, agent as ag, scripts

OID_BY_LEN = {}


def oids_for(n):
    """request OIDs whose scoped PDU differs in length (n only selects a shape)"""
    if n <= 5:
        return ["1.3.6.1.2.1.1.1.0"]
    if n <= 8:
        return ["1.3.6.1.2.1.1.1.0", "1.3.6.1.2.1.1.2.0"]
    return ["1.3.6.1.2.1.2.2.1.%d.%d" % (i, 1000 + i) for i in range(1, 7)]


_VAL = [0]


def run_history(rec, cfg, script, sid=1, variant=0):
    first = rec.n
    sess = rawdrv.RawSession(rec, cfg, sid=sid)
    agent = ag.Agent(engine=cfg.engine or None) if cfg.engine else ag.Agent()
    req = None
    op = None
    nsend = 0
    nrep = 0
    BT = [(1, 100), (0, 0), (127, 128), (2 ** 31 - 1, 2 ** 31 - 1), (255, 65536), (70000, 255), (2 ** 24, 2 ** 16 - 1), (5, 2 ** 31 - 2)]

    def advance():
        # the agent's boots / time change between replies (adopted by the session: C13; fed to the IV: C11)
        nonlocal nrep
        nrep += 1
        agent.boots, agent.time = BT[(nrep + variant) % len(BT)]
    for a in script:
        act = a["a"]
        if act == "send":
            if req is not None:
                # previous request is abandoned (no recv call): model 'timeout' of the caller's own deadline
                pass
            nsend += 1
            oids = oids_for(a["n"])
            op = "get" if len(oids) == 1 else "get_many"
            if (variant + nsend) % 3 == 0 and len(oids) == 1:
                op = "getnext"
            if (variant + nsend) % 5 == 1:
                op = "getbulk"                      # every kind of request goes through the cipher's private buffer
            if (variant + nsend) % 7 == 3 or (nsend == 1 and variant % 2 == 0):
                op = "refresh"                      # the time-synchronisation probe is a message of the session like any other (the first one
                                                    # goes out while the session knows neither boots nor time)
            w, exc = sess.send(op, ([] if op == "refresh" else oids) if op not in ("getnext", "getbulk") else oids[:1], maxrep=4 if op == "getbulk" else None)
            req = ag.Request(cfg, w) if w is not None else None
        elif act == "reply-enc":
            if req is None:
                continue
            if req.broken or not req.names:          # the agent cannot read the request (judged at the Send event): no reply
                sess.recv(op)
                req = None
                continue
            # values rotate through encodings that END in a zero octet (INTEGER 0 / 256, empty and NUL-terminated strings, TimeTicks 0,
            # x.x.x.0 addresses, counters with a zero low octet): with zero padding the padding cannot be told from content by looking
            _VAL[0] += 1
            val = [("int", 7), ("int", 0), ("octets", b""), ("int", 256), ("octets", b"ab\x00"), ("timeticks", 0), ("ip", bytes([10, 0, 0, 0])),
                   ("counter64", 2 ** 64 - 256), ("int", 65536), ("octets", b"x")][_VAL[0] % 10]
            vbs = [(n, val) for n in req.names] if op not in ("getnext", "getbulk") else [(list(req.names[0]) + [1], val)]
            vbs = [(bytes(n) if not isinstance(n, list) else bytes(n), v) for n, v in vbs]
            advance()
            sess.inject(agent.reply(cfg, req, vbs))
            sess.recv(op)
            req = None
        elif act == "reply-plain-report":
            if req is None:
                continue
            advance()
            sess.inject(agent.report(cfg, req))
            sess.recv(op)
            req = None
        elif act == "timeout":
            if req is None:
                continue
            sess.recv(op)
            req = None
        elif act == "set-keys":
            sess.set_keys(cfg)
            req = None
        elif act == "set-salt":
            sess.position_salt(a["v"])
            req = None
        elif act == "set-keys-bad":
            # a botched key rotation: unusable key material (empty password / localized key of the wrong size) in the privacy or the auth key
            klen = 16 if cfg.auth == "md5" else 20
            bad = [dict(pkt="password", pkm=b""), dict(pkt="localized", pkm=bytes(klen - 3)), dict(akt="password", akm=b""),
                   dict(akt="localized", akm=bytes(klen + 1))][(variant + nsend) % 4]
            f = dict(akt=cfg.akt, akm=cfg.akm, pkt=cfg.pkt, pkm=cfg.pkm)
            f.update(bad)
            sess.set_keys(rawdrv.Cfg("v3", user=cfg.user, engine=cfg.engine, auth=cfg.auth, priv=cfg.priv, **f))
            req = None
    sess.close()
    return first, rec.n
