"""Shared machinery of the session-level checks: model-check Session.tla, export behaviours, replay them on the
real sockets, let TraceSession.tla judge, map failing events back to scripts."""
import os, json
from . import env, tlc, trace, scripts
from .env import ToolError


def cfg_text(consts, invariants=(), properties=(), view=None, spec="Spec"):
    lines = ["SPECIFICATION " + spec, "CONSTANTS"]
    for k, v in consts.items():
        if isinstance(v, bool):
            v = "TRUE" if v else "FALSE"
        elif isinstance(v, str):
            v = '"%s"' % v
        lines.append("  %s = %s" % (k, v))
    if view:
        lines.append("VIEW " + view)
    if invariants:
        lines.append("INVARIANTS " + " ".join(invariants))
    if properties:
        lines.append("PROPERTIES " + " ".join(properties))
    lines.append("CHECK_DEADLOCK FALSE")
    return "\n".join(lines) + "\n"


def write_cfg(text, name):
    d = env.scratch("cfg")
    p = os.path.join(d, name)
    open(p, "w").write(text)
    return p


def mc_session(chk, cfgname, max_req, max_inbox, max_inject, sec=False, dev=False, workers=8):
    c = dict(scripts.model_consts(cfgname), MaxReq=max_req, MaxInbox=max_inbox, MaxInject=max_inject,
             DEV_NoIncomingMacCheck=dev, WithSecMutants=sec)
    p = write_cfg(cfg_text(c, invariants=["TypeOK", "DeliverOnlyCurrent", "AcceptOnlyAuthenticated"],
                           properties=["SkipKeepsWaiting", "UndecodableEndsCall", "LaterMatchDelivered"], view="View"),
                  "MC_Session_%s.cfg" % cfgname)
    res = tlc.run_tlc("MC_Session.tla", p, workers=workers, timeout=1800)
    return res


def export_scripts(cfgname, max_req, max_inbox, max_inject, sec=False):
    c = dict(scripts.model_consts(cfgname), MaxReq=max_req, MaxInbox=max_inbox, MaxInject=max_inject,
             DEV_NoIncomingMacCheck=False, WithSecMutants=sec)
    p = write_cfg(cfg_text(c, invariants=["ExportDone"]), "MC_Session_export_%s.cfg" % cfgname)
    res = tlc.run_tlc("MC_Session.tla", p, workers=4, timeout=1800, coverage=False)
    tlc.require_ok(res, "script export " + cfgname)
    out = [x["script"] for x in res.printed if isinstance(x, dict) and "script" in x]
    if not out:
        raise ToolError("no scripts exported for " + cfgname)
    return out, res


def replay_and_judge(chk, name, items, props=None, par=10, batch=6000):
    """items: list of (cfgname, cfg, script, variant). Replays all in batches of `batch` scripts (each batch is validated by
    parallel TLC runs and then dropped, so memory stays bounded however many behaviours the model exports); returns
    (failures, recorder of the first batch, number of runs); a failure is dict(cfgname, script, call=(op, consumed, model), event)."""
    import time as _t
    failures = []
    first_rec = None
    nruns = 0
    nevents = 0
    tval = 0.0
    for bi in range(0, len(items), batch):
        rec = trace.Recorder("%s-b%d" % (name, bi // batch) if bi else name)
        runs = []
        for cfgname, cfg, script, variant in items[bi:bi + batch]:
            a, b, calls = scripts.run_script(rec, cfg, script, variant)
            runs.append((a, b, cfgname, script, calls))
        rec.close()
        _t0 = _t.time()
        v = trace.validate_parallel("TraceSession.tla", "TraceSession.cfg", rec.events, [(r[0], r[1]) for r in runs], k=par, name=name)
        tval += _t.time() - _t0
        for i, r in enumerate(v["results"]):
            chk.add_tlc(r, "TraceSession(%s)#%d.%d" % (name, bi // batch, i))
        chk.traces += len(runs)
        nruns += len(runs)
        nevents += rec.n
        fails = sorted(v["fails"])
        ri = 0
        for idx in fails:
            while ri < len(runs) and runs[ri][1] <= idx:
                ri += 1
            if ri >= len(runs):
                break
            a, b, cfgname, script, calls = runs[ri]
            call = [c for c in calls if c[0] == idx]
            failures.append(dict(cfgname=cfgname, script=script, event=rec.events[idx], events=rec.events[a:idx + 1],
                                 call=call[0][1:] if call else None))
        if first_rec is None:
            first_rec = rec
        if len(items) > batch:
            print("  batch %d: %d scripts so far, %d events, %d failures" % (bi // batch, nruns, nevents, len(failures)), flush=True)
    print("  replayed %d scripts, %d events; trace validation %.1fs" % (nruns, nevents, tval), flush=True)
    return failures, first_rec, nruns
