"""Scripted agent: builds concrete reply datagrams (well-formed ones and one-field mutants of them) for
captured requests.  Stimulus construction only - TLC re-decodes every octet it produces."""
import os
from . import refcodec as rc, refcrypto as rx


class Request:
    """A captured request, parsed permissively (decrypted with the reference cipher when needed)."""

    def __init__(self, cfg, wire):
        """Never raises: a request the reference codec cannot read (the code under test emitted something
        wrong) is data - `broken` is set and neutral defaults are used so that the script can go on; the trace
        specification judges the datagram itself."""
        self.wire = bytes(wire)
        self.broken = False
        self.ver, self.msgid, self.engine = cfg.ver, 0, b""
        self.pdu = dict(reqid=0, vbs=[], ptype="?", f2=0, f3=0)
        try:
            self._parse(cfg)
        except Exception:
            self.broken = True
        self.reqid = self.pdu["reqid"]
        self.names = [n for n, _ in self.pdu["vbs"]]
        self.ptype = self.pdu["ptype"]
        self.f3 = self.pdu["f3"]

    def _parse(self, cfg):
        self.m = rc.parse_msg(self.wire)
        self.ver = self.m["ver"]
        if self.ver == "v3":
            self.msgid = self.m["msg_id"]
            self.engine = bytes(self.m["engine"])
            if "enc" in self.m:
                kp = rx.kul(cfg.auth, cfg.pkt, cfg.pkm, self.engine)
                b4 = (self.m["boots"] & 0xFFFFFFFF).to_bytes(4, "big")
                t4 = (self.m["time"] & 0xFFFFFFFF).to_bytes(4, "big")
                plain = rx.usm_decrypt(cfg.priv, kp[:16], self.m["priv"], b4, t4, self.m["enc"])
                self.pdu = rc.parse_scoped(plain)["pdu"]
            else:
                self.pdu = self.m["pdu"]
        else:
            self.pdu = self.m["pdu"]


class Agent:
    def __init__(self, engine=b"\x80\x00\x1f\x88\x80\x01\x02\x03\x04", boots=1, time=100):
        self.engine, self.boots, self.time = bytes(engine), boots, time
        self.salt = 0x0102030405060000
        self.npad = 0          # DES replies rotate through the padding styles real agents use (zero / PKCS / 0xff / arbitrary)

    def reply(self, cfg, req, varbinds, ptype="response", reqid=None, msgid=None, community=None, user=None,
              engine=None, key_engine=None, ver=None, mac="valid", flag_auth=None, flag_priv=None, enc=None,
              boots=None, time=None, truncate=0, es=0, ei=0, form=None, flags_extra=0, salt=None, ctx_engine=None,
              auth_key=None, priv_key=None, trailing=b"", max_size=65507):
        """varbinds: list of (name, value); name = arcs list or raw OID content bytes."""
        reqid = req.reqid if reqid is None else reqid
        pdu = rc.enc_pdu(ptype, reqid, es, ei, varbinds, form)
        ver = ver or cfg.ver
        if ver in ("v1", "v2c"):
            comm = (cfg.community.encode() if community is None else community)
            d = rc.enc_community_msg(ver, comm, pdu, form) + trailing
            return d[:len(d) - truncate] if truncate else d
        # v3
        engine = self.engine if engine is None else bytes(engine)
        key_engine = engine if key_engine is None else bytes(key_engine)
        boots = self.boots if boots is None else boots
        time = self.time if time is None else time
        msgid = req.msgid if msgid is None else msgid
        user = cfg.user.encode() if user is None else user
        has_auth = cfg.auth != "none"
        has_priv = cfg.priv != "none"
        if enc is None:
            enc = "ok" if has_priv else "plain"
        if flag_auth is None:
            flag_auth = has_auth and mac != "absent"
        if flag_priv is None:
            flag_priv = enc != "plain"
        scoped = rc.enc_scoped(engine if ctx_engine is None else ctx_engine, b"", pdu)
        privp = b""
        if enc == "plain":
            data = scoped
        else:
            self.salt += 1
            privp = (self.salt & 0xFFFFFFFFFFFFFFFF).to_bytes(8, "big") if salt is None else bytes(salt)
            if priv_key is not None:
                kp = bytes(priv_key)
            else:
                kp = rx.kul(cfg.auth, cfg.pkt, cfg.pkm, key_engine) if has_priv else bytes(range(16))
            if enc == "badkey":
                kp = bytes((b ^ 0x5A) for b in kp)
            cipher = cfg.priv if has_priv else "aes"
            b4 = (boots & 0xFFFFFFFF).to_bytes(4, "big")
            t4 = (time & 0xFFFFFFFF).to_bytes(4, "big")
            self.npad += 1
            style = ["zero", "pkcs", "ff", "mixed"][self.npad % 4]
            if len(privp) == 8:
                ct = rx.usm_encrypt(cipher, kp[:16], privp, b4, t4, scoped, pad_style=style)
            else:
                ct = rx.usm_encrypt(cipher, kp[:16], (privp + bytes(8))[:8], b4, t4, scoped, pad_style=style)
            data = rc.tlv(0x04, ct)
        flags = (1 if flag_auth else 0) | (2 if flag_priv else 0) | flags_extra
        authp = b"" if mac == "absent" else bytes(12)
        if isinstance(mac, dict) and mac["kind"] in ("short", "long"):
            authp = bytes(mac["k"])                       # a field of another length (the MAC is computed over the message as sent)
        d = rc.enc_v3_msg(msgid, flags, engine, boots, time, user, authp, privp, data, form=form, max_size=max_size) + trailing
        if mac != "absent":
            m = rc.parse_msg(d)
            pos = m["auth_pos"]
            if mac == "zero":
                tag = bytes(12)
            elif mac == "random":
                tag = bytes([0xA5, 0x5A, 1, 2, 3, 4, 5, 6, 7, 8, 9, 10])
            else:
                ka = bytes(auth_key) if auth_key is not None else (rx.kul(cfg.auth, cfg.akt, cfg.akm, key_engine) if has_auth else bytes(16))
                alg = cfg.auth if has_auth else "md5"
                tag = rx.hmac96(alg, ka, d)
                if mac == "flip":
                    tag = bytes([tag[0] ^ 1]) + tag[1:]
                elif isinstance(mac, dict) and mac["kind"] == "short":
                    tag = tag[:mac["k"]]
                elif isinstance(mac, dict) and mac["kind"] == "long":
                    tag = tag + bytes(range(1, mac["k"] - 11))
                elif isinstance(mac, dict):
                    tag = near_mac(tag, mac)
            d = d[:pos] + tag + d[pos + len(authp):]
        return d[:len(d) - truncate] if truncate else d

    def report(self, cfg, req, oid=(1, 3, 6, 1, 6, 3, 15, 1, 1, 4, 0), counter=1, **kw):
        """usmStats* Report (default usmStatsUnknownEngineIDs), unauthenticated unless told otherwise."""
        kw.setdefault("mac", "absent")
        kw.setdefault("enc", "plain")
        kw.setdefault("flag_auth", False)
        kw.setdefault("flag_priv", False)
        return self.reply(cfg, req, [(list(oid), ("counter32", counter))], ptype="report", **kw)


def near_mac(tag, x):
    """the correct MAC with the structured difference x (spec/Forgeries.tla NearMacs); never equal to tag"""
    t = bytearray(tag)
    kind, i, j, k = x["kind"], x["i"], x["j"], x["k"]
    if kind == "bits":
        t[i] ^= 1 << (i % 8)
    elif kind == "pair":
        t[i] ^= 1 << ((i + j) % 8)
        t[j] ^= 1 << ((i + j) % 8)
    elif kind == "sum":
        t[i] = (t[i] + 1) % 256
        t[j] = (t[j] - 1) % 256
    elif kind == "tri":
        t[i] ^= 1
        t[j] ^= 2
        t[k] ^= 3
    elif kind == "rot":
        t = t[k:] + t[:k]
    elif kind == "rev":
        t = t[::-1]
    elif kind == "head":
        t = t[:k] + bytearray(12 - k)
    elif kind == "tail":
        t = bytearray(12 - k) + t[12 - k:]
    if bytes(t) == bytes(tag):          # degenerate (e.g. a palindromic MAC): make it differ
        t[5] ^= 0x10
    return bytes(t)


def other_id(ids):
    """an id in 0..2^31-1 that differs from every id in ids"""
    x = 1234567
    while x in ids:
        x += 1
    return x
