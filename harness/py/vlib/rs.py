"""Run the Rust replay binary (real library code) on a batch of requests."""
import json, subprocess
from . import env
from .env import ToolError


def available():
    """False when the library under test no longer compiles with the codec helpers (hooks level 'off'): no replay binary"""
    return env.hooks_level() != "off" and env.rs_level() != "none"


def run(requests, timeout=600):
    """requests: list of dicts. Returns list of observation dicts (same length)."""
    if not available():
        raise ToolError("the Rust replay binary cannot be built against this tree (src/verif.rs does not compile): Rust-level replay unavailable")
    data = "\n".join(json.dumps(r, separators=(",", ":")) for r in requests) + "\n"
    try:
        p = subprocess.run([env.replay_bin()], input=data, capture_output=True, text=True, timeout=timeout)
    except subprocess.TimeoutExpired:
        # non-termination of code under test is data for C01; find the culprit by bisection at the caller
        raise TimeoutError("replay binary did not finish")
    lines = [l for l in p.stdout.splitlines() if l.strip()]
    if p.returncode != 0 or len(lines) != len(requests):
        # the process died (abort / stack overflow): report how far it got
        return [json.loads(l) for l in lines] + [{"r": "died", "rc": p.returncode, "stderr": p.stderr[-300:]}] * (len(requests) - len(lines))
    return [json.loads(l) for l in lines]
