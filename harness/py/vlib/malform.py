"""Templates for Malform.tla and access to the TLC-generated malformed corpus."""
import os, json, hashlib
from . import env, corpus, refcodec as rc, agent as ag, rawdrv, scripts


class FakeReq:
    """a 'request' with fixed ids so that templates are deterministic"""
    def __init__(self, cfg, names):
        self.reqid, self.msgid, self.names, self.engine, self.broken = 0x1234567, 0x2345678, names, b"", False


def templates():
    """list of dict(name, ver, b) - well-formed replies of every version / security level / PDU shape"""
    std = scripts.std_cfgs()
    agent = ag.Agent()
    n1, n2 = [1, 3, 6, 1, 2, 1, 1, 3, 0], [1, 3, 6, 1, 2, 1, 2, 2, 1, 10, 128]
    out = []

    def add(name, cfgname, vbs, **kw):
        cfg = std[cfgname]
        req = FakeReq(cfg, [rc.oid_content(n1)])
        out.append(dict(name=name, ver=cfg.ver, cfg=cfgname, b=list(agent.reply(cfg, req, vbs, **kw))))
    add("v2c-int", "v2c", [(n1, ("int", -129))])
    add("v2c-empty", "v2c", [])
    add("v2c-two", "v2c", [(n1, ("octets", b"abc")), (n2, ("counter64", 2 ** 63))])
    add("v2c-exc", "v2c", [(n1, ("noSuchObject",)), (n2, ("endOfMibView",))])
    add("v2c-bulk-end", "v2c", [(n1, ("int", 1)), (n2, ("octets", b"ab")), (n2 + [1], ("endOfMibView",))])      # values followed by the end marker
    add("v2c-types", "v2c", [(n1, ("ip", bytes([10, 0, 0, 1]))), (n2, ("oid", [1, 3, 6, 1, 4, 1, 99999])), (n1 + [1], ("real", b"\x80\x00\x03")), (n1 + [2], ("timeticks", 400000000))])
    add("v1-int", "v1", [(n1, ("gauge32", 4000000000))])
    add("v1-nosuchname", "v1", [(n1, ("null",))], es=2, ei=1)
    add("v3-plain", "v3-noauth", [(n1, ("int", 5))])
    add("v3-report", "v3-noauth", [([1, 3, 6, 1, 6, 3, 15, 1, 1, 4, 0], ("counter32", 9))], ptype="report")
    add("v3-auth", "v3-md5", [(n1, ("octets", b"x" * 20))])
    add("v3-des", "v3-md5-des", [(n1, ("int", 77))])
    add("v3-aes", "v3-sha1-aes", [(n1, ("int", 77)), (n2, ("null",))])
    # relative OID name in the second varbind (an extension the decoder knows)
    vb1 = rc.tlv(0x30, rc.tlv(0x06, rc.oid_content(n1)) + rc.enc_int(1))
    vb2 = rc.tlv(0x30, rc.tlv(0x0D, bytes([4, 0])) + rc.enc_int(2))
    pdu = rc.tlv(0xA2, rc.enc_int(0x1234567) + rc.enc_int(0) + rc.enc_int(0) + rc.tlv(0x30, vb1 + vb2))
    out.append(dict(name="v2c-reloid", ver="v2c", cfg="v2c", b=list(rc.enc_community_msg("v2c", b"public", pdu))))
    # relative OID names with 0..3 content octets, as first / second varbind, after bases of 1 / 2 / 9 octets
    k = 0
    for base in ([43], [43, 6], list(rc.oid_content(n1))):
        for rel in ([], [1], [1, 2], [1, 2, 3], [129, 1], [129]):
            for first in (False, True):
                k += 1
                vbs = b""
                if not first:
                    vbs += rc.tlv(0x30, rc.tlv(0x06, bytes(base)) + rc.enc_int(1))
                vbs += rc.tlv(0x30, rc.tlv(0x0D, bytes(rel)) + rc.enc_int(2))
                pdu = rc.tlv(0xA2, rc.enc_int(0x1234567) + rc.enc_int(0) + rc.enc_int(0) + rc.tlv(0x30, vbs))
                out.append(dict(name="v2c-reloid-%d" % k, ver="v2c", cfg="v2c", b=list(rc.enc_community_msg("v2c", b"public", pdu)), nomutate=True))
    # well-formed messages whose NAMES are every prefix of the names a client may want to interpret (usmStats* in Reports, the asked
    # OID in Responses): a prefix match is not a length check.  Reports go to sessions of every security level (they are accepted
    # without a MAC); values vary with the position.
    for cfgname in ("v3-noauth", "v3-md5", "v3-sha1-aes", "v2c"):
        cfg = std[cfgname]
        for full in ([1, 3, 6, 1, 6, 3, 15, 1, 1, 4, 0], [1, 3, 6, 1, 6, 3, 15, 1, 1, 2, 0], [1, 3, 6, 1, 6, 3, 11, 2, 1, 3, 0], n1):
            content = rc.oid_content(full)
            for cut in range(0, len(content) + 1):
                req = FakeReq(cfg, [rc.oid_content(n1)])
                val = [("counter32", cut), ("int", cut), ("null",), ("octets", b"")][cut % 4]
                if cfg.ver == "v3":
                    d = agent.report(cfg, req, counter=cut) if False else agent.reply(cfg, req, [(bytes(content[:cut]), val)], ptype="report", mac="absent", enc="plain", flag_auth=False, flag_priv=False)
                    out.append(dict(name="%s-report-name-%d-%d" % (cfgname, full[-2] * 100 + full[-4], cut), ver=cfg.ver, cfg=cfgname, b=list(d), nomutate=True))
                if full is n1 or cfg.ver != "v3":
                    d = agent.reply(cfg, req, [(bytes(content[:cut]), val)])
                    out.append(dict(name="%s-response-name-%d-%d" % (cfgname, full[-2] * 100 + full[-4], cut), ver=cfg.ver, cfg=cfgname, b=list(d), nomutate=True))
    # Opaque wraps BER (RFC 2578 7.1.9; agents put Float / Double / Integer64 / Unsigned64 / Counter64 there under the extension
    # tags 9f 78..7b / 9f 76): well-formed replies whose Opaque CONTENTS are nested TLVs with every relation between the inner
    # declared length and what is really there (the position machine applied one level down); also the same octets as OCTET STRING
    k = 0
    for tagb in ([0x9F, 0x78], [0x9F, 0x79], [0x9F, 0x7A], [0x9F, 0x7B], [0x9F, 0x76], [0x9F, 0x00], [0x44], [0x04], [0x02], [0x30], [0x9F]):
        for true_len in (0, 1, 4, 8):
            payload = bytes((0x3F + 17 * j) % 256 for j in range(true_len))
            for lenb in ([true_len], [true_len + 1], [max(0, true_len - 1)], [0x7F], [0x80], [0x81, true_len], [0x81, 0xFF], [0x82, 0, true_len], [0xFF], []):
                k += 1
                content = bytes(tagb) + bytes(lenb) + payload
                for kind in (("opaque",) if k % 3 else ("opaque", "octets")):
                    add("v2c-%s-nested-%d" % (kind, k), "v2c", [(n1, (kind, content))])
                    out[-1]["nomutate"] = True
                if k % 7 == 0:
                    add("v3-opaque-nested-%d" % k, "v3-md5", [(n1, ("opaque", content)), (n2, ("int", k))])
                    out[-1]["nomutate"] = True
                if k % 11 == 0:
                    add("v1-opaque-nested-%d" % k, "v1", [(n1, ("opaque", content))])
                    out[-1]["nomutate"] = True
    # large replies: the receive buffer takes 4080 octets although the client announces msgMaxSize 2048
    for cfgname in ("v2c", "v1", "v3-noauth", "v3-md5", "v3-sha1", "v3-md5-des", "v3-sha1-aes"):
        cfg = std[cfgname]
        for total in (1400, 2047, 2048, 2049, 2050, 3000, 4000, 4079, 4080):
            req = FakeReq(cfg, [rc.oid_content(n1)])
            pad = max(0, total - 120)
            d = agent.reply(cfg, req, [(n1, ("octets", b"x" * pad))])
            # adjust the filler so that the datagram has exactly `total` octets
            for _ in range(6):
                pad += total - len(d)
                if pad < 0:
                    break
                d = agent.reply(cfg, req, [(n1, ("octets", b"x" * pad))])
                if len(d) == total:
                    break
            out.append(dict(name="%s-big-%d" % (cfgname, len(d)), ver=cfg.ver, cfg=cfgname, b=list(d), nomutate=True))
    # plaintext scoped PDUs (mutated, then encrypted by the driver: the privacy decrypt path)
    sc = rc.enc_scoped(agent.engine, b"", rc.enc_pdu("response", 0x1234567, 0, 0, [(n1, ("int", 3))]))
    out.append(dict(name="scoped-plain", ver="scoped", cfg="v3-md5-des", b=list(sc)))
    return out


def corpus_for(chk=None):
    t = templates()
    d = os.path.join(env.BUILD, "gen")
    os.makedirs(d, exist_ok=True)
    blob = "\n".join(json.dumps(dict(name=x["name"], ver=x["ver"] if x["ver"] != "scoped" else "v2c", b=x["b"])) for x in t if not x.get("nomutate")) + "\n"
    h = hashlib.sha1(blob.encode()).hexdigest()[:10]
    path = os.path.join(d, "templates-%s.ndjson" % h)
    if not os.path.exists(path):
        open(path, "w").write(blob)
    out, res = corpus.generate("Malform.tla", ["SNMP.tla", "BER.tla", "Octets.tla"], "\n", timeout=1800, env_vars={"TEMPLATES": path})
    if res and chk:
        chk.add_tlc(res, "Malform.tla")
    muts = [x for x in out if "mut" in x]
    muts += huge_length_mutants(t)
    return t, muts


def huge_length_mutants(templates_):
    """the position machine's long-form lengths, taken to the top of what 8 length octets can say: at every TLV node of a few templates
    the length is rewritten to 2^64-1 .. 2^64-16, 2^63, 2^32 and 2^31 (8-octet form) - arithmetic on a declared length must not wrap"""
    out = []
    vals = [2 ** 64 - 1 - k for k in range(0, 16)] + [2 ** 63, 2 ** 63 - 1, 2 ** 32, 2 ** 31]
    for t in templates_:
        if t["name"] not in ("v2c-int", "v2c-two", "v1-int", "v3-plain", "v3-auth", "v2c-types"):
            continue
        b = bytes(t["b"])
        # offsets of all TLV headers reachable by descending into constructed elements (and the msgSecurityParameters OCTET STRING)
        nodes = []

        def walk(p, end, depth):
            while p < end and depth < 8:
                try:
                    tag, ln, hl = b[p], b[p + 1], 2
                    if ln & 0x80:
                        k = ln & 0x7F
                        ln = int.from_bytes(b[p + 2:p + 2 + k], "big")
                        hl = 2 + k
                except IndexError:
                    return
                nodes.append((p, hl))
                if tag & 0x20 or (tag == 0x04 and depth == 1 and t["ver"] == "v3"):
                    walk(p + hl, min(end, p + hl + ln), depth + 1)
                p += hl + ln
        walk(0, len(b), 0)
        for ni, (p, hl) in enumerate(nodes):
            for vi, v in enumerate(vals):
                if (ni + vi) % 3 and v < 2 ** 64 - 12:
                    continue
                nb = b[:p + 1] + bytes([0x88]) + v.to_bytes(8, "big") + b[p + hl:]
                out.append(dict(t=t["name"], ver=t["ver"], mut="hugelen=%d@%d" % (vi, p), why="toolong", b=list(nb)))
    return out
