"""ndjson trace recorder + TLC trace validation."""
import json, os
from .env import ToolError, scratch
from . import tlc

I32 = 2 ** 31


def _check(o, path="$"):
    """TLC's Json module turns numbers >= 2^31 into 0 and rejects null: refuse to write them."""
    if o is None:
        raise ToolError("null in trace at %s" % path)
    if isinstance(o, bool):
        return
    if isinstance(o, int):
        if not (-I32 <= o < I32):
            raise ToolError("int out of TLC range in trace at %s: %r" % (path, o))
    elif isinstance(o, float):
        raise ToolError("float in trace at %s" % path)
    elif isinstance(o, dict):
        for k, v in o.items():
            _check(v, path + "." + str(k))
    elif isinstance(o, (list, tuple)):
        for i, v in enumerate(o):
            _check(v, "%s[%d]" % (path, i))


class Recorder:
    def __init__(self, name):
        self.dir = scratch("trace-" + name)
        self.path = os.path.join(self.dir, name + ".ndjson")
        self.f = open(self.path, "w")
        self.n = 0
        self.events = []

    def emit(self, ev):
        _check(ev)
        self.f.write(json.dumps(ev, separators=(",", ":")) + "\n")
        self.n += 1
        self.events.append(ev)

    def close(self):
        self.f.close()
        return self.path


def validate(module, cfg, trace_path, timeout=600, xmx="4g", env=None):
    """Returns dict(accepted=bool, n=int, rejected_at=int|None, event=...). Tool problems raise ToolError."""
    e = {"TRACE": trace_path}
    if env:
        e.update(env)
    res = tlc.run_tlc(module, cfg, workers=1, env=e, timeout=timeout, deque=True, coverage=False, xmx=xmx)
    acc = [p for p in res.printed if isinstance(p, dict) and "accepted" in p]
    rej = [p for p in res.printed if isinstance(p, dict) and "rejected_at" in p]
    fails = [p for p in res.printed if isinstance(p, dict) and "fails" in p]
    if acc and res.ok:
        f = fails[-1]["fails"] if fails else []
        return dict(accepted=True, n=acc[-1]["accepted"], res=res, fails=list(f))
    if rej:
        return dict(accepted=False, rejected_at=rej[-1]["rejected_at"], event=rej[-1].get("event"), res=res)
    tail = "\n".join(res.stdout.splitlines()[-40:])
    raise ToolError("trace validation did not conclude (%s %s):\n%s" % (module, trace_path, tail))


def validate_parallel(module, cfg, events, boundaries, k=8, timeout=3000, xmx="3g", name="par"):
    """Split a recorded trace at run boundaries (list of (start, end) event index pairs, each a self-contained
    Open..Close run) into k chunks validated by k TLC processes in parallel.
    Returns dict(accepted, fails=[0-based event indices], results=[TlcResult...])."""
    import concurrent.futures, json as _json
    k = max(1, min(k, len(boundaries)))
    chunks = [[] for _ in range(k)]
    # contiguous chunks of roughly equal event counts
    total = sum(b - a for a, b in boundaries)
    target = total / k
    ci, acc = 0, 0
    for a, b in boundaries:
        if acc >= target * (ci + 1) and ci < k - 1:
            ci += 1
        chunks[ci].append((a, b))
        acc += b - a
    jobs = []
    d = scratch("trace-" + name)
    for i, ch in enumerate(chunks):
        if not ch:
            continue
        path = os.path.join(d, "chunk%d.ndjson" % i)
        idxmap = []
        with open(path, "w") as f:
            for a, b in ch:
                for j in range(a, b):
                    f.write(_json.dumps(events[j], separators=(",", ":")) + "\n")
                    idxmap.append(j)
        jobs.append((path, idxmap))

    def work(job):
        path, idxmap = job
        v = validate(module, cfg, path, timeout=timeout, xmx=xmx)
        return v, idxmap

    fails, results, badrecs = [], [], {}
    with concurrent.futures.ThreadPoolExecutor(max_workers=len(jobs)) as ex:
        for v, idxmap in ex.map(work, jobs):
            results.append(v["res"])
            for p in v["res"].printed:
                if isinstance(p, dict) and "badrecs" in p:
                    br = p["badrecs"]
                    badrecs[idxmap[br["event"] - 1]] = dict(n=br["n"], first=sorted(br["first"]))
            if not v["accepted"]:
                at = v["rejected_at"]
                raise ToolError("trace structurally rejected at event %s: %s" % (idxmap[at - 1] if at - 1 < len(idxmap) else at, _json.dumps(v.get("event"))[:400]))
            fails += [idxmap[f - 1] for f in v["fails"]]
    return dict(accepted=True, fails=sorted(fails), results=results, badrecs=badrecs)
