"""ndjson trace recorder + TLC trace validation."""
import json, os
from .env import ToolError, scratch
from . import tlc

I32 = 2 ** 31


def _check(o, path="$"):
    """TLC's Json module turns numbers >= 2^31 into 0 and rejects null: refuse to write them."""
    if o is None:
        raise ToolError("null in trace at %s" % path)
    if isinstance(o, bool):
        return
    if isinstance(o, int):
        if not (-I32 <= o < I32):
            raise ToolError("int out of TLC range in trace at %s: %r" % (path, o))
    elif isinstance(o, float):
        raise ToolError("float in trace at %s" % path)
    elif isinstance(o, dict):
        for k, v in o.items():
            _check(v, path + "." + str(k))
    elif isinstance(o, (list, tuple)):
        for i, v in enumerate(o):
            _check(v, "%s[%d]" % (path, i))


class Recorder:
    def __init__(self, name):
        self.dir = scratch("trace-" + name)
        self.path = os.path.join(self.dir, name + ".ndjson")
        self.f = open(self.path, "w")
        self.n = 0
        self.events = []

    def emit(self, ev):
        _check(ev)
        self.f.write(json.dumps(ev, separators=(",", ":")) + "\n")
        self.n += 1
        self.events.append(ev)

    def close(self):
        self.f.close()
        return self.path


def validate(module, cfg, trace_path, timeout=600, xmx="4g", env=None):
    """Returns dict(accepted=bool, n=int, rejected_at=int|None, event=...). Tool problems raise ToolError."""
    e = {"TRACE": trace_path}
    if env:
        e.update(env)
    res = tlc.run_tlc(module, cfg, workers=1, env=e, timeout=timeout, deque=True, coverage=False, xmx=xmx)
    acc = [p for p in res.printed if isinstance(p, dict) and "accepted" in p]
    rej = [p for p in res.printed if isinstance(p, dict) and "rejected_at" in p]
    fails = [p for p in res.printed if isinstance(p, dict) and "fails" in p]
    if acc and res.ok:
        f = fails[-1]["fails"] if fails else []
        return dict(accepted=True, n=acc[-1]["accepted"], res=res, fails=list(f))
    if rej:
        return dict(accepted=False, rejected_at=rej[-1]["rejected_at"], event=rej[-1].get("event"), res=res)
    tail = "\n".join(res.stdout.splitlines()[-40:])
    raise ToolError("trace validation did not conclude (%s %s):\n%s" % (module, trace_path, tail))
