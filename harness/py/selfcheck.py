"""Setup-time self checks: SANY on all modules; reference implementations against standard vectors."""
import os, sys, glob
sys.path.insert(0, os.path.dirname(os.path.abspath(__file__)))
from vlib import tlc, env

bad = 0
for f in sorted(glob.glob(os.path.join(env.SPEC, "*.tla"))):
    ok, out = tlc.sany(os.path.basename(f))
    if not ok:
        bad += 1
        print("SANY FAILED:", f)
        print(out[-1500:])
try:
    import vlib.refcrypto as rc
    rc.selftest()
except ModuleNotFoundError:
    pass
try:
    import vlib.refcodec as rcd
    rcd.selftest()
except ModuleNotFoundError:
    pass
sys.exit(1 if bad else 0)
