"""C08 - the OID sent is the OID asked for; invalid OID text is refused.

OidTexts.tla (TLC) enumerates strings from a token grammar (1..3 arcs exhaustively over 26 tokens, one bad
token at each position of a valid OID, dot placement, 2..129 arcs, first/second-arc limits), checks at design
level print(parse(s)) = s and canonicity, and classifies each (must send exactly / may refuse or send exactly /
must refuse).  Each string goes through get_many() and GetIter() on a real socket; TraceSession.tla decodes the
captured request and requires: refusal <=> not sent; sent => OID octets = OidFromText(s); the echoed OID is
rendered back to the identical text."""
import json
from vlib import env, tlc, trace, corpus, rawdrv, agent as ag, refcodec as rc, scripts
from vlib.report import Check
from vlib.env import ToolError, SEED


def case(rec, cfg, agent, s, op):
    first = rec.n
    sess = rawdrv.RawSession(rec, cfg)
    try:
        txt = bytes(s).decode("ascii")
    except Exception:
        txt = bytes(s).decode("latin1")
    if op == "get_many":
        w, exc = sess.send("get_many", [txt])
    elif op == "get":
        w, exc = sess.send("get", [txt])
    else:
        try:
            w, exc = sess.send(op, [txt], maxrep=5)
        except ValueError as e:      # GetIter() constructor refused the text before any socket call
            w, exc = None, "ValueError"
    if w is not None and op == "get_many":
        req = ag.Request(cfg, w)
        if not req.broken and req.names:            # (a request without the name is judged at the Send event)
            sess.inject(agent.reply(cfg, req, [(req.names[0], ("int", 1))]))
            sess.recv("get_many")
    sess.close()
    return first, rec.n


def row_runs(rec, cfg, agent):
    """getbulk replies of six consecutive table rows (names differing in the last sub-identifier only; last arcs on both sides of
    every base-128 length step, and deep inside the 3-, 4- and 5-octet ranges where neighbours share their leading octets), plus the
    same rows fetched one by one with getnext: every name is rendered to the text of the name the agent sent"""
    from checks import c02
    out = []
    for start in (1, 126, 127, 128, 200, 1000, 16382, 16383, 16384, 70000, 2097150, 2097152, 268435454, 436207616, 4294967290):
        for depth2 in (1, 2):
            base = c02.BASE + [8] * depth2
            lay = [(base + [start + j], ("int", j)) for j in range(6)]
            first = rec.n
            sess = rawdrv.RawSession(rec, cfg)
            w, exc = sess.send("getbulk", [".".join(str(x) for x in base)], maxrep=10)
            if w is not None:
                req = ag.Request(cfg, w)
                sess.inject(agent.reply(cfg, req, lay))
                sess.recv("getbulk")
            sess.close()
            out.append((first, rec.n, dict(s=list((".".join(str(x) for x in base) + ".%d.." % start).encode()), op="getbulk-rows", cls=0)))
        # one row per reply: the iterator object lives across replies
        base = c02.BASE + [9]
        first = rec.n
        sess = rawdrv.RawSession(rec, cfg)
        for j in range(4):
            if j == 0:
                w, exc = sess.send("getnext", [".".join(str(x) for x in base)])
            else:
                w, exc = sess.send("getnext", iter_obj=sess.iter, names=[rc.oid_content(base + [start + j - 1])], itstart=rc.oid_content(base))
            if w is None:
                break
            req = ag.Request(cfg, w)
            sess.inject(agent.reply(cfg, req, [(base + [start + j], ("int", j))]))
            sess.recv("getnext")
        sess.close()
        out.append((first, rec.n, dict(s=list((".".join(str(x) for x in base) + ".%d.. (getnext)" % start).encode()), op="getnext-rows", cls=0)))
    return out


def run(tier):
    chk = Check("C08", tier)
    thorough = tier == "thorough"
    chk.rule = ("strings from the token grammar of OidTexts.tla through get / get_many / GetIter (getnext, getbulk) on a real v2c socket; "
                "distinct = (string, entry point); non-trivial = the string has at least two dot-separated tokens")
    depth = 3
    table, res = corpus.generate("OidTexts.tla", ["BER.tla", "Octets.tla"], "CONSTANTS Depth = %d\n" % depth)
    if res:
        chk.add_tlc(res, "OidTexts.tla")
    strs = [t for t in table if "s" in t]
    if len(strs) < 18000:
        raise ToolError("string table incomplete")
    cfg = scripts.std_cfgs()["v2c"]
    agent = ag.Agent()
    rec = trace.Recorder("c08")
    runs = []

    # GetIter() raising in the constructor is recorded as a refused Send by patching RawSession.send usage:
    for i, t in enumerate(strs):
        s = t["s"]
        ops = ["get_many", "getnext"] if (thorough or t["cls"] != 4 or (i + SEED) % 3 == 0) else ["get_many"]
        if thorough:
            ops += ["get", "getbulk"]
        for op in ops:
            a, b = case(rec, cfg, agent, s, op)
            runs.append((a, b, dict(s=s, op=op, cls=t["cls"])))
            chk.case((bytes(s).hex(), op), nontrivial=46 in s)
    # OIDs whose contents cross the length-form boundaries of their own TLV header (127/128, 255/256 octets) and go far beyond:
    # up to 128 arcs of up to 5 octets each are legal
    long_texts = []
    for arcs, val in ((42, 16384), (43, 16384), (62, 4294967295), (85, 16384), (86, 16384), (51, 4294967295), (52, 4294967295), (126, 16384), (126, 4294967295), (100, 268435456)):
        long_texts.append("1.3" + (".%d" % val) * arcs)
    # every content length from 100 to 140 octets and from 240 to 262 (each enclosing header - varbind, varbind list, PDU, message -
    # crosses its own 127/128 and 255/256 step at a different name length), in two shapes: one-octet arcs / five-octet arcs
    for n in list(range(100, 141)) + list(range(240, 263)):
        long_texts.append("1.3" + ".1" * (n - 1))
        long_texts.append("1.3" + ".4294967295" * ((n - 1) // 5) + ".1" * ((n - 1) % 5))
    for i, txt in enumerate(long_texts):
        for op in (("get", "get_many", "getnext", "getbulk") if (i < 10 or thorough) else ("get", "getnext", "get_many", "getbulk")[(i % 2) * 2:(i % 2) * 2 + 2] + ("get",)):
            a, b = case(rec, cfg, agent, list(txt.encode()), op)
            runs.append((a, b, dict(s=list(txt.encode()), op=op, cls=0)))
            chk.case(("long", i, op))
    # rendering inside walks: rows whose names differ in the last sub-identifier only (a getbulk reply is rendered by one iterator),
    # asked for under text bases with the same arcs; last arcs on both sides of every base-128 length step
    for first, last, info in row_runs(rec, cfg, agent):
        runs.append((first, last, info))
        chk.case(("rows", bytes(info["s"]).decode()))
    # valid names handed to the PUBLIC API in every container a caller may use (list, tuple, generator, iterator, map, dict view,
    # reversed): "every syntactically valid name is transmitted" holds at the API, not only at the socket
    import asyncio
    from checks import c03
    for a, b, info in asyncio.run(c03.api_iterables(rec)):
        runs.append((a, b, dict(s=list(("get_many(%s) via %s %s" % (info["form"], info["client"], info["cfg"])).encode()), op="api-iterable", cls=0)))
        chk.case(("api-iterable", info["cfg"], info["client"], info["form"]))
    rec.close()
    print("  %d cases, %d events" % (len(runs), rec.n), flush=True)
    v = trace.validate_parallel("TraceSession.tla", "TraceSession.cfg", rec.events, [(a, b) for a, b, _ in runs], k=12, name="c08")
    for i, r in enumerate(v["results"]):
        chk.add_tlc(r, "TraceSession(c08)#%d" % i)
    chk.traces += len(runs)
    ri = 0
    for idx in v["fails"]:
        while ri < len(runs) and runs[ri][1] <= idx:
            ri += 1
        a, b, info = runs[ri]
        ev = rec.events[idx]
        txt = bytes(info["s"]).decode("latin1")
        toks = txt.split(".")
        kind = "sent-but-invalid" if (ev["ev"] == "Send" and not ev.get("exc")) else ("refused-valid" if ev["ev"] == "Send" else "render")
        sig = dict(kind=kind, cls=info["cls"], ntok=min(len(toks), 4),
                   first=toks[0] if len(toks[0]) < 3 else "big", second=(toks[1] if len(toks) > 1 and len(toks[1]) < 3 else "big"))
        chk.violation(sig, "%r via %s: %s (spec class %d) %s" % (txt[:60], info["op"], kind, info["cls"], ev.get("exc") or ""),
                      dict(info=info, events=rec.events[a:idx + 1]))
    chk.sample(dict(kind="string", entry=strs[100]))
    chk.sample(dict(kind="string", entry=[t for t in strs if t["cls"] == 0][5]))
    return chk.finish()


def replay(path):
    d = json.load(open(path))
    info = d["replay"]["info"]
    rec = trace.Recorder("c08-replay")
    if info["op"] == "api-iterable":
        import asyncio
        from checks import c03
        asyncio.run(c03.api_iterables(rec))
        v = trace.validate("TraceSession.tla", "TraceSession.cfg", rec.close())
        if v["accepted"] and not v["fails"]:
            print("replay: accepted")
            return 0
        print("VIOLATION property=C08 replay=%s" % path)
        return 1
    a, b = case(rec, scripts.std_cfgs()["v2c"], ag.Agent(), info["s"], info["op"])
    v = trace.validate("TraceSession.tla", "TraceSession.cfg", rec.close())
    if v["accepted"] and not v["fails"]:
        print("replay: accepted")
        return 0
    print("VIOLATION property=C08 replay=%s" % path)
    return 1
