"""C17 - oversized requests fail cleanly; buffer code stays in bounds.

Buffer.tla (TLC): InBounds, NoUnwrittenExposed, FailChangesNothing, BookmarkLemma over all operation sequences on
a small buffer.  At the real capacity (measured from the library) every transition of the model's graph over the
boundary argument set {0,1,2,3,126..129,255..257,1000,4076..4081} x {push, push_tag_len, skip, reset, MAC
placeholder} is replayed on a REAL Buffer through the Rust replay binary (path + transition), and
TraceBuffer.tla judges result, len()/free() and the exact contents of data() (run-length encoded) after every
step.  Through the public API, request sizes are swept across the 127/128, 255/256 and capacity boundaries at each
nesting level (number of OIDs x community / user-name length; v1, v2c, v3 plain/auth/priv): TraceSession.tla
requires that a refused request (SnmpEncodeError) put nothing on the wire and really does not fit (size arithmetic
of SNMP.tla), that every sent request decodes to exactly the call, and that the session still works afterwards.
Privacy sessions reuse a private buffer: the padding behind each encrypted scoped PDU must be written for that
message, never a left-over of earlier ciphertext or of a decrypted reply (TraceSession.tla PadOK; design level:
Privacy.tla PadWrittenForThisMessage, with DEV_PadOnce as the counterexample-producing deviation)."""
import json, random
from vlib import env, tlc, trace, graph, rs, rawdrv, scripts, sesscheck, agent as ag
from vlib.report import Check
from vlib.env import ToolError, SEED


def rle(data):
    out = []
    for b in data:
        if out and out[-1][0] == b:
            out[-1][1] += 1
        else:
            out.append([b, 1])
    return out


def measure_capacity():
    o = rs.run([{"op": "buffer", "ops": [["reset"]]}])[0]
    return o["steps"][0]["free"]


def mc_buffer(maxv, args):
    txt = "SPECIFICATION Spec\nCONSTANTS\n  MAX = %d\n  Args <- %s\nINVARIANTS InBounds NoUnwrittenExposed BookmarkLemma\nPROPERTIES FailChangesNothing\nCHECK_DEADLOCK FALSE\n" % (maxv, args)
    return tlc.run_tlc("MC_Buffer.tla", sesscheck.write_cfg(txt, "MC_Buffer.cfg"), workers=8, timeout=1800)


def export_graph(cap):
    txt = "SPECIFICATION ExportSpec\nCONSTANTS\n  MAX = %d\n  Args <- ArgsReal\nVIEW ExportView\nCHECK_DEADLOCK FALSE\n" % cap
    res = tlc.run_tlc("MC_Buffer.tla", sesscheck.write_cfg(txt, "MC_Buffer_export.cfg"), workers=1, timeout=1800, coverage=False, xmx="6g")
    tlc.require_ok(res, "buffer export")
    return [x for x in res.printed if isinstance(x, dict) and "op" in x], res


def to_real_ops(path, k):
    ops = []
    for j, t in enumerate(path):
        x = (k * 7 + j * 13 + 1) % 251 + 1
        if t["op"] == "push":
            ops.append((["push_fill", t["arg"], x], dict(op="push", arg=t["arg"], x=x)))
        elif t["op"] == "push_tag_len":
            ops.append((["push_tag_len", x, t["arg"]], dict(op="push_tag_len", arg=t["arg"], x=x)))
        elif t["op"] == "skip":
            ops.append((["skip", t["arg"]], dict(op="skip", arg=t["arg"], x=0)))
            ops.append((["fill", x], dict(op="fill", arg=0, x=x)))
        elif t["op"] == "reset":
            ops.append((["reset"], dict(op="reset", arg=0, x=0)))
        elif t["op"] == "auth_placeholder":
            ops.append((["push_fill", 12, 0], dict(op="push", arg=12, x=0)))
            ops.append((["push_tag_len", 4, 12], dict(op="push_tag_len", arg=12, x=4)))
            ops.append((["set_bookmark", 2], dict(op="set_bookmark", arg=2, x=0)))
    return ops


def buffer_part(chk, thorough, rng):
    cap = measure_capacity()
    chk.extra["measured_capacity"] = cap
    res = mc_buffer(24 if not thorough else 40, "ArgsSmall")
    tlc.require_ok(res, "MC_Buffer")
    tlc.require_coverage(res, ["Push", "PushTagLen", "Skip", "FillAll", "Reset", "PushAuthPlaceholder"], "MC_Buffer")
    chk.add_tlc(res, "MC_Buffer small")
    trs, xres = export_graph(cap)
    chk.add_tlc(xres, "buffer graph export at MAX=%d" % cap)
    init = graph.key({"pos": cap})
    paths = graph.shortest_paths(trs, init)
    boundary = set([0, 1, 2, 3, 4, 126, 127, 128, 129, 255, 256, 257] + list(range(cap - 6, cap + 1)))
    chosen = []
    for i, t in enumerate(trs):
        interesting = t["from"]["pos"] in boundary or t["to"]["pos"] in boundary or t["res"] != "ok"
        # always: every operation that runs out of room by a hair (a header or placeholder that does not fit; a push that misses by
        # at most four octets) and every one that just fits (lands within four octets of the front) - the capacity check of each
        # write is what the property is about
        tight = ((t["res"] != "ok" and (t["op"] != "push" or t["arg"] - t["from"]["pos"] <= 4))
                 or (t["res"] == "ok" and t["to"]["pos"] <= 4 and t["op"] in ("push_tag_len", "auth_placeholder"))
                 or (t["res"] == "ok" and t["to"]["pos"] <= 4 and t["op"] in ("push", "skip") and t["from"]["pos"] != t["to"]["pos"] and (i + SEED) % (40 if not thorough else 4) == 0))
        if tight:
            chosen.append(t)
        elif thorough:
            if (interesting and (i + SEED) % 2 == 0) or (i + SEED) % 60 == 0:
                chosen.append(t)
        elif (interesting and (i + SEED) % 24 == 0) or (i + SEED) % 900 == 0:
            chosen.append(t)
    cfgp = sesscheck.write_cfg("SPECIFICATION TSpec\nCONSTANTS MAX = %d\nPOSTCONDITION TraceAccepted\nCHECK_DEADLOCK FALSE\n" % cap, "TraceBuffer.cfg")
    nev = 0
    # in batches: each step of a replay carries the buffer's contents (run-length encoded), so a batch is replayed, judged and dropped
    BATCH = 2500
    for b0 in range(0, len(chosen), BATCH):
        part = chosen[b0:b0 + BATCH]
        reqs, metas = [], []
        for k, t in enumerate(part):
            path = paths.get(graph.key(t["from"]))
            if path is None:
                raise ToolError("unreachable buffer state")
            ops = to_real_ops(path + [t], b0 + k)
            reqs.append({"op": "buffer", "data": True, "ops": [o for o, _ in ops]})
            metas.append(ops)
            chk.case(("buf", t["from"]["pos"], t["op"], t["arg"]))
        obs = rs.run(reqs, timeout=1800)
        rec = trace.Recorder("c17buf")
        runs = []
        for k, (o, ops) in enumerate(zip(obs, metas)):
            a = rec.n
            rec.emit(dict(ev="BufNew"))
            if o.get("r") != "ok":
                rec.emit(dict(ev="BufOp", op="crash", arg=0, x=0, res=str(o.get("r")), len=0, free=0, rle=[], bookmark=0))
            else:
                for st, (_, m) in zip(o["steps"], ops):
                    rec.emit(dict(ev="BufOp", op=m["op"], arg=m["arg"], x=m["x"], res=st["res"], len=st["len"], free=st["free"],
                                  rle=rle(st["data"]), bookmark=st.get("bookmark", 0) if st.get("bookmark", 0) < 2 ** 31 else -1))
            runs.append((a, rec.n, part[k]))
        del obs
        rec.close()
        nev += rec.n
        v = trace.validate_parallel("TraceBuffer.tla", cfgp, rec.events, [(a, b) for a, b, _ in runs], k=12, name="c17buf")
        for i, r in enumerate(v["results"]):
            chk.add_tlc(r, "TraceBuffer#%d.%d" % (b0 // BATCH, i))
        chk.traces += len(runs)
        ri = 0
        for idx in v["fails"]:
            while runs[ri][1] <= idx:
                ri += 1
            a, b, t = runs[ri]
            ev = rec.events[idx]
            chk.violation(dict(kind="buffer", op=ev["op"], res=ev["res"]), "Buffer %s(%s) from pos %d: observed res=%s len=%d free=%d" % (ev["op"], ev["arg"], t["from"]["pos"], ev["res"], ev["len"], ev["free"]),
                          dict(kind="buffer", transition=t, events=rec.events[a:idx + 1][-4:]))
    print("  buffer: %d transitions replayed, %d events" % (len(chosen), nev), flush=True)
    chk.sample(dict(kind="buffer-transition", transition=chosen[len(chosen) // 3]))
    return cap


def oid_of(i, arcs):
    if arcs <= 2:
        return "%d.%d" % (i % 3, (i // 3) % 40)          # two-arc names: one content octet, the smallest varbind there is (7 octets)
    return ".".join(["1", "3", "6", "1", "4", "1"] + [str(100000 + (i * 131 + k) % 50000) for k in range(arcs - 6)])


def peer_bounce_session(rec, cfg, nreq, cap):
    import time as _time

    class _NullRec:
        n = 0

        def emit(self, e):
            pass
    s = rawdrv.RawSession(rec, cfg, maxbuf=cap)
    s.send("get", [oid_of(1, 9)])
    s.kill_agent()
    real_rec, s.rec = s.rec, _NullRec()
    s.send("get", [oid_of(2, 9)])                    # bounces (environment, not judged)
    s.rec = real_rec
    _time.sleep(0.05)
    s.revive_agent()
    s.send("get_many" if nreq > 1 else "get", [oid_of(i, 9) for i in range(nreq)], peergone=True)
    s.send("get", [oid_of(3, 9)], peergone=True)      # (the pending error surfaces at the first send() that reaches the socket)
    s.send("get", [oid_of(4, 9)])
    s.close()


def after_reply_session(rec, cfg, M, reqs, cap):
    s = rawdrv.RawSession(rec, cfg, maxbuf=cap)
    agent = ag.Agent(engine=cfg.engine)
    for j, (n, arcs) in enumerate(reqs):
        oids = [oid_of(i, arcs) for i in range(n)]
        op = "get" if n == 1 else "get_many"
        w, exc = s.send(op, oids)
        if w is None or j % 2:
            continue
        req = ag.Request(cfg, w)
        if req.broken:
            continue
        if j % 4 == 0:
            s.inject(agent.reply(cfg, req, [(bytes(nm), ("int", 1)) for nm in req.names[:2]], max_size=M))
        else:
            s.inject(agent.report(cfg, req, max_size=M))
        s.recv(op)
    s.close()


def size_sweep(chk, thorough, rng, cap):
    std = scripts.std_cfgs()
    e = ag.Agent().engine
    plans = []
    # (cfg factory, list of (n_oids, arcs))
    small = [(n, a) for n in range(0, 14) for a in (7, 9, 14)]
    big = [(n, 9) for n in range(int(cap / 17.0) - 25, int(cap / 17.0) + 12)] + [(n, 30) for n in range(int(cap / 49.0) - 6, int(cap / 49.0) + 6)]
    for L in (list(range(0, 150, 1 if thorough else 3)) + [250, 255, 256, 300]):
        plans.append(("v2c", rawdrv.Cfg("v2c", community="c" * L), [small[(L * 5 + j) % len(small)] for j in range(3)] + [big[(L + j * 7) % len(big)] for j in range(2)]))
    for L in range(0, 40, 1 if thorough else 2):
        plans.append(("v2c-big", rawdrv.Cfg("v2c", community="c" * L), [big[(L * 3 + j) % len(big)] for j in range(6)]))
        plans.append(("v1-big", rawdrv.Cfg("v1", community="d" * L), [big[(L * 5 + j) % len(big)] for j in range(3)]))
    for L in range(0, 33, 1 if thorough else 3):
        for base in ("v3-noauth", "v3-md5", "v3-sha1", "v3-md5-des", "v3-sha1-aes"):
            c = std[base]
            cfg = rawdrv.Cfg("v3", user="u" * L, engine=e, auth=c.auth, akt=c.akt, akm=c.akm, priv=c.priv, pkt=c.pkt, pkm=c.pkm)
            plans.append((base, cfg, [small[(L * 7 + j) % len(small)] for j in range(2)] + [big[(L * 11 + j * 5) % len(big)] for j in range(4)]))
    # user names and engine ids beyond the RFC's 32 octets (the library takes what it is given): every length form of their headers
    for L in (33, 40, 64, 127, 128, 129, 200, 255, 256, 300):
        for base in ("v3-noauth", "v3-md5", "v3-sha1-aes"):
            c = std[base]
            cfg = rawdrv.Cfg("v3", user="n" * L, engine=e, auth=c.auth, akt=c.akt, akm=c.akm, priv=c.priv, pkt=c.pkt, pkm=c.pkm)
            plans.append((base, cfg, [small[(L + j) % len(small)] for j in range(3)]))
            eng = bytes([0x80, 0, 0x1f, 0x88] + [(i * 3 + L) % 256 for i in range(L - 4)])
            cfg2 = rawdrv.Cfg("v3", user="u", engine=eng, auth=c.auth, akt=c.akt, akm=c.akm, priv=c.priv, pkt=c.pkt, pkm=c.pkm)
            plans.append((base + "-engine%d" % L, cfg2, [small[(L + j + 1) % len(small)] for j in range(3)]))
    # OID-level length forms: 1..3 OIDs whose contents are 120..135 / 250..262 octets long
    for L in list(range(120, 136)) + list(range(250, 263)) + [300, 500]:
        plans.append(("v2c-longoid", rawdrv.Cfg("v2c", community="public"), [(-L, 1), (-L, 2), (-L, 3)]))
        if L % 3 == 0:
            plans.append(("v3-md5-des", std["v3-md5-des"], [(-L, 1), (-L, 2)]))
    # the smallest varbinds (two-arc names, 7 octets each): how many OIDs fit is decided by the buffer, not by a count
    per = cap / 7.0
    for nm, cfg in (("v2c-twoarc", rawdrv.Cfg("v2c", community="public")), ("v1-twoarc", rawdrv.Cfg("v1", community="p")), ("v3-noauth-twoarc", std["v3-noauth"])):
        ns = [int(per) + d for d in (-80, -70, -60, -40, -20, -10, -8, -6, -5, -4, -3, -2, -1, 0, 1, 2, 10)]
        plans.append((nm, cfg, [(n, 2) for n in (ns if nm == "v2c-twoarc" or thorough else ns[::3])]))
    rec = trace.Recorder("c17api")
    runs = []
    for name, cfg, reqs in plans:
        a = rec.n
        s = rawdrv.RawSession(rec, cfg, maxbuf=cap)
        for (n, arcs) in reqs:
            if n < 0:
                from checks.c03 import long_oid
                oids = [long_oid(-n, rng) for _ in range(arcs)]
                s.send("get" if arcs == 1 else "get_many", oids)
                chk.case(("size-longoid", name, -n, arcs))
                continue
            oids = [oid_of(i, arcs) for i in range(max(0, n))]
            if n == 1:
                s.send("get", oids)
            elif n == 0 and cfg.ver == "v3":
                s.send("refresh", [])
            else:
                s.send("get_many", oids)
            chk.case(("size", name, len(cfg.community if cfg.ver != "v3" else cfg.user), n, arcs))
        # after everything (including refusals): the session still emits a correct request (pool buffer was reset)
        s.send("get", ["1.3.6.1.2.1.1.1.0"])
        s.close()
        runs.append((a, rec.n, dict(cfg=name, L=len(cfg.community if cfg.ver != "v3" else cfg.user), reqs=reqs)))
    # what fits is sent - whatever the session has RECEIVED before: replies and Reports announcing every msgMaxSize an agent may
    # have (484 is the RFC 3412 minimum; 1472 / 1500 follow the MTU; 2048 echoes the client's own; 65507; 2^31-1), then requests
    # below and above that value and around the buffer's capacity
    for mi, M in enumerate((484, 1472, 1500, 2048, 4079, 65507, 2 ** 31 - 1)):
        for base in ("v3-noauth", "v3-md5", "v3-sha1-aes"):
            cfg = std[base]
            reqs = [(1, 9), (20, 9), (60, 9), (110, 9), big[(mi * 5) % len(big)], (150, 9), big[(mi * 5 + 9) % len(big)], (3, 9)]
            a = rec.n
            after_reply_session(rec, cfg, M, reqs, cap)
            for (n, arcs) in reqs:
                chk.case(("size-after-reply", base, M, n, arcs))
            runs.append((a, rec.n, dict(cfg=base + "-after-msgMaxSize-%d" % M, L=len(cfg.user), reqs=reqs)))
    # what the operating system may do to a send(): the peer's port closes (one datagram bounces: ICMP port unreachable), comes back,
    # and the next send() of the connected socket is refused with ECONNREFUSED - reported as an error; a request is either on the wire,
    # complete, or the call failed
    for cn in ("v2c", "v1", "v3-md5", "v3-noauth"):
        cfg = std[cn]
        for nreq in (1, 40, 200):
            a = rec.n
            peer_bounce_session(rec, cfg, nreq, cap)
            runs.append((a, rec.n, dict(cfg=cn + "-peer-bounce", L=nreq, reqs=[])))
            chk.case(("peer-bounce", cn, nreq), n=3)
    rec.close()
    nref = sum(1 for ev in rec.events if ev["ev"] == "Send" and ev.get("exc"))
    nsent = sum(1 for ev in rec.events if ev["ev"] == "Send" and not ev.get("exc"))
    print("  size sweep: %d sessions, %d requests sent, %d refused" % (len(runs), nsent, nref), flush=True)
    chk.extra["size_sweep"] = dict(sent=nsent, refused=nref)
    # (how many were sent / refused is an observation about the code under test, judged below - not a tool condition)
    v = trace.validate_parallel("TraceSession.tla", "TraceSession.cfg", rec.events, [(a, b) for a, b, _ in runs], k=12, name="c17api")
    for i, r in enumerate(v["results"]):
        chk.add_tlc(r, "TraceSession(c17)#%d" % i)
    chk.traces += len(runs)
    ri = 0
    for idx in v["fails"]:
        while runs[ri][1] <= idx:
            ri += 1
        a, b, info = runs[ri]
        ev = rec.events[idx]
        sig = dict(kind="size", cfg=info["cfg"], refused=bool(ev.get("exc")), exc=ev.get("exc") or "")
        chk.violation(sig, "%s L=%d: request #%d with %d OIDs: %s wire=%d octets nwire=%d" % (info["cfg"], info["L"], sum(1 for x in rec.events[a:idx + 1] if x["ev"] == "Send"),
                      len(ev.get("oids", [])), ev.get("exc") or "sent", len(ev.get("wire", [])), ev.get("nwire", 0)), dict(kind="size", info=info, event_index=idx - a))
    sizes = sorted({len(ev["wire"]) for ev in rec.events if ev["ev"] == "Send" and ev.get("wire")})
    chk.extra["distinct_message_sizes"] = len(sizes)
    chk.sample(dict(kind="size-sweep", largest_sent=sizes[-5:], around_128=[x for x in sizes if 120 <= x <= 135], around_256=[x for x in sizes if 250 <= x <= 262]))


def pad_sessions(rec, thorough):
    """privacy sessions whose private buffer is used over and over: requests of every length residue modulo the cipher block,
    some answered with encrypted replies that carry recognisable content.  TraceSession.tla (PadOK) requires the padding behind
    the scoped PDU to be written for each message - never a left-over of earlier ciphertext or of a decrypted reply."""
    std = scripts.std_cfgs()
    runs = []
    for cn in ("v3-md5-des", "v3-sha1-aes", "v3-sha1-des", "v3-md5-aes"):
        cfg = std[cn]
        for mode in (0, 1, 2):                      # reply to every request / to every third / to none
            a = rec.n
            sess = rawdrv.RawSession(rec, cfg)
            agent = ag.Agent(engine=cfg.engine)
            for k in range(20 if not thorough else 48):
                oid = "1.3.6.1.4.1" + "".join(".%d" % ((j * 11 + k) % 120 + 1) for j in range(k % 17))
                op = ["get", "getnext", "getbulk", "get_many"][k % 4]
                w, exc = sess.send(op, [oid] if op != "get_many" else [oid, oid + ".1"], maxrep=3 if op == "getbulk" else None)
                if w is None:
                    continue
                if mode == 0 or (mode == 1 and k % 3 == 0):
                    req = ag.Request(cfg, w)
                    if not req.broken and req.names:
                        secret = b"enable-secret=%d-TOPSECRET-" % k + bytes(range(65, 65 + (k * 5) % 23))
                        name = bytes(req.names[0]) + (bytes([1]) if op in ("getnext", "getbulk") else b"")
                        sess.inject(agent.reply(cfg, req, [(name, ("octets", secret))]))
                    sess.recv(op)
            sess.close()
            runs.append((a, rec.n, dict(kind="pad", cfg=cn, mode=mode)))
    return runs


def pad_part(chk, thorough):
    rec = trace.Recorder("c17pad")
    runs = pad_sessions(rec, thorough)
    rec.close()
    v = trace.validate_parallel("TraceSession.tla", "TraceSession.cfg", rec.events, [(a, b) for a, b, _ in runs], k=6, name="c17pad")
    for i, r in enumerate(v["results"]):
        chk.add_tlc(r, "TraceSession(c17pad)#%d" % i)
    chk.traces += len(runs)
    for a, b, info in runs:
        for e in rec.events[a:b]:
            if e["ev"] == "Send" and e.get("wire"):
                chk.case(("pad", info["cfg"], info["mode"], len(e["wire"])))
    ri = 0
    for idx in v["fails"]:
        while runs[ri][1] <= idx:
            ri += 1
        a, b, info = runs[ri]
        ev = rec.events[idx]
        nth = sum(1 for x in rec.events[a:idx + 1] if x["ev"] == ev["ev"])
        chk.violation(dict(kind="pad", cipher="des" if "des" in info["cfg"] else "aes", ev=ev["ev"], got=ev.get("exc") or "sent"),
                      "%s (replies: %s): %s #%d %s" % (info["cfg"], ["all", "every third", "none"][info["mode"]], ev["ev"], nth, ev.get("exc") or ""),
                      dict(kind="pad", info=info, event_index=idx - a))


def run(tier):
    chk = Check("C17", tier)
    thorough = tier == "thorough"
    rng = random.Random(SEED)
    chk.rule = ("buffer: transitions of Buffer.tla's graph at the measured capacity (all with a boundary position or a failure, the rest sampled in quick), each via a "
                "shortest path on a real Buffer; API: request size sweep (OID count x OID length x community/user length) across length-form and capacity "
                "boundaries on v1/v2c/v3; distinct = (source position, op, argument) / (config, name length, OID count, arcs); all cases non-trivial")
    cap = buffer_part(chk, thorough, rng)
    size_sweep(chk, thorough, rng, cap)
    from checks import c11
    for cipher in ("des", "aes"):
        res = c11.mc_privacy(cipher, 5 if not thorough else 6)
        tlc.require_ok(res, "MC_Privacy " + cipher)
        chk.add_tlc(res, "MC_Privacy %s (PadWrittenForThisMessage, NoSpuriousRefusal)" % cipher)
    dres = c11.mc_privacy("aes", 3, dev_pad=True)
    if dres.ok or "PadWrittenForThisMessage" not in (dres.violation or ""):
        raise ToolError("DEV_PadOnce did not produce the expected counterexample: %s" % dres.violation)
    chk.extra["deviation_counterexample"] = "DEV_PadOnce=TRUE violates PadWrittenForThisMessage"
    pad_part(chk, thorough)
    chk.assumptions += ["out-of-bounds access without a functional symptom (no change in result/len/contents) is not observable here (DESIGN.md 6)"]
    return chk.finish()


def replay(path):
    d = json.load(open(path))
    r = d["replay"]
    cap = measure_capacity()
    if r.get("kind") == "buffer":
        trs, _ = export_graph(cap)
        paths = graph.shortest_paths(trs, graph.key({"pos": cap}))
        t = r["transition"]
        ops = to_real_ops(paths[graph.key(t["from"])] + [t], 1)
        o = rs.run([{"op": "buffer", "data": True, "ops": [x for x, _ in ops]}])[0]
        rec = trace.Recorder("c17-replay")
        rec.emit(dict(ev="BufNew"))
        for st, (_, m) in zip(o.get("steps", []), ops):
            rec.emit(dict(ev="BufOp", op=m["op"], arg=m["arg"], x=m["x"], res=st["res"], len=st["len"], free=st["free"], rle=rle(st["data"]),
                          bookmark=st.get("bookmark", 0) if st.get("bookmark", 0) < 2 ** 31 else -1))
        cfgp = sesscheck.write_cfg("SPECIFICATION TSpec\nCONSTANTS MAX = %d\nPOSTCONDITION TraceAccepted\nCHECK_DEADLOCK FALSE\n" % cap, "TraceBuffer.cfg")
        v = trace.validate("TraceBuffer.tla", cfgp, rec.close())
    elif r.get("kind") == "pad":
        rec = trace.Recorder("c17-replay")
        pad_sessions(rec, False)
        v = trace.validate("TraceSession.tla", "TraceSession.cfg", rec.close())
    else:
        info = r["info"]
        std = scripts.std_cfgs()
        e = ag.Agent().engine
        L = info["L"]
        if info["cfg"].endswith("-peer-bounce"):
            rec = trace.Recorder("c17-replay")
            peer_bounce_session(rec, std[info["cfg"][:-len("-peer-bounce")]], L, cap)
            v = trace.validate("TraceSession.tla", "TraceSession.cfg", rec.close())
            if v["accepted"] and not v["fails"]:
                print("replay: accepted")
                return 0
            print("VIOLATION property=C17 replay=%s" % path)
            return 1
        if "-after-msgMaxSize-" in info["cfg"]:
            base, M = info["cfg"].split("-after-msgMaxSize-")
            rec = trace.Recorder("c17-replay")
            after_reply_session(rec, std[base], int(M), [tuple(x) for x in info["reqs"]], cap)
            v = trace.validate("TraceSession.tla", "TraceSession.cfg", rec.close())
            if v["accepted"] and not v["fails"]:
                print("replay: accepted")
                return 0
            print("VIOLATION property=C17 replay=%s" % path)
            return 1
        if info["cfg"].endswith("-twoarc"):
            cfg = {"v2c-twoarc": rawdrv.Cfg("v2c", community="public"), "v1-twoarc": rawdrv.Cfg("v1", community="p"), "v3-noauth-twoarc": std["v3-noauth"]}[info["cfg"]]
        elif info["cfg"].startswith("v3"):
            c = std[info["cfg"]]
            cfg = rawdrv.Cfg("v3", user="u" * L, engine=e, auth=c.auth, akt=c.akt, akm=c.akm, priv=c.priv, pkt=c.pkt, pkm=c.pkm)
        else:
            cfg = rawdrv.Cfg("v1" if info["cfg"].startswith("v1") else "v2c", community=("d" if info["cfg"].startswith("v1") else "c") * L)
        rec = trace.Recorder("c17-replay")
        s_ = rawdrv.RawSession(rec, cfg, maxbuf=cap)
        for (n, arcs) in info["reqs"]:
            oids = [oid_of(i, arcs) for i in range(max(0, n))]
            if n == 1:
                s_.send("get", oids)
            elif n == 0 and cfg.ver == "v3":
                s_.send("refresh", [])
            else:
                s_.send("get_many", oids)
        s_.send("get", ["1.3.6.1.2.1.1.1.0"])
        s_.close()
        v = trace.validate("TraceSession.tla", "TraceSession.cfg", rec.close())
    if v["accepted"] and not v["fails"]:
        print("replay: accepted")
        return 0
    print("VIOLATION property=C17 replay=%s" % path)
    return 1
