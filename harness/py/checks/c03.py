"""C03 - requests on the wire are exactly what the caller asked for, whatever happened before.

Pool.tla (TLC): MessagesStartEmpty / PoolBounded over every history of calls (2 sessions x 5 operations x 6 fates:
answered, stray-then-answered, timeout, decode error, oversize -> EncodeError, abandoned); the pool deviation
DEV_NoResetOnDrop yields the expected counterexample.  Every history within the bound is replayed on real sockets
of two sessions of different versions / security levels sharing the process-wide pool; seeded random calls (random
OID lists, max_repetitions up to 2^31-1) and the fetch() policy of the real sync/async SnmpSession (GetBulk only on
v2c/v3 with bulk allowed) are added.  TraceSession.tla decodes EVERY emitted datagram with the TLA+ codec and requires:
canonical definite minimal encoding, the session's version and credentials (community; user / engine id / boots /
time / flags), the PDU type of the call, non-repeaters 0 and the requested max-repetitions, request-id in 0..2^31-1,
the requested OIDs in order each bound to NULL."""
import json, random, asyncio
from vlib import env, tlc, trace, scripts, rawdrv, agent as ag, sesscheck, apidrv, walks
from vlib.report import Check, confirm_by_replay, timing_event
from vlib.env import ToolError, SEED

PAIRS = [("v2c", "v3-md5-des"), ("v1", "v3-sha1-aes"), ("v3-noauth", "v2c"), ("v3-md5", "v1"), ("v3-md5-aes", "v3-sha1-des"), ("v2c", "v2c"),
         # sessions of one process that use the same password bytes under different digests / ciphers
         ("v3-md5-samepw", "v3-sha1-samepw"), ("v3-sha1-des-samepw", "v3-md5-aes-samepw"),
         # users whose auth and privacy keys are given in different forms (password / master / localized)
         ("v3-md5-des-pw+master", "v3-sha1-aes-master+pw"), ("v3-md5-aes-pw+localized", "v3-sha1-des-localized+pw")]
BIG = ["1.3.6.1.4.1.%d.%d.%d" % (100000 + i, 200000 + i, 300000 + i) for i in range(420)]


def long_oid(content_len, rng):
    """dotted OID whose BER contents are exactly content_len octets (<= 128 arcs)"""
    arcs = ["1", "3"]
    left = content_len - 1
    while left > 0:
        k = min(left, rng.choice([1, 2, 3, 4, 5]))
        if left - k == 0 or len(arcs) < 120:
            pass
        else:
            k = min(left, 5)
        lo = 0 if k == 1 else 128 ** (k - 1)
        hi = min(128 ** k - 1, 2 ** 32 - 1)
        if lo > hi:
            k = 4
            lo, hi = 128 ** 3, 128 ** 4 - 1
        arcs.append(str(rng.randrange(lo, hi + 1)))
        left -= k
    return ".".join(arcs)


def mc_pool(maxlen, dev=False, export=False):
    txt = ("SPECIFICATION Spec\nCONSTANTS\n  Sessions <- SessionsDef\n  Ops <- OpsDef\n  Fates <- FatesDef\n  MaxLen = %d\n  DEV_NoResetOnDrop = %s\n"
           "INVARIANTS MessagesStartEmpty PoolBounded%s\nCHECK_DEADLOCK FALSE\n" % (maxlen, "TRUE" if dev else "FALSE", " ExportDone" if export else ""))
    return tlc.run_tlc("MC_Pool.tla", sesscheck.write_cfg(txt, "MC_Pool.cfg"), workers=8, timeout=1800, coverage=not export)


def do_call(sess, agent, cfg, op, fate, k):
    if cfg.ver == "v1" and op == "getbulk":
        op = "getnext"
    if cfg.ver != "v3" and op == "refresh":
        op = "get"
    base = "1.3.6.1.2.1.%d" % (k % 30 + 1)
    if fate == "oversize":
        sess.send("get_many", BIG)
        return
    if op == "get":
        w, exc = sess.send("get", [base + ".1.0"])
    elif op == "get_many":
        w, exc = sess.send("get_many", [base + ".%d.0" % i for i in range(1, 2 + k % 4)])
    elif op == "getnext":
        w, exc = sess.send("getnext", [base])
    elif op == "getbulk":
        w, exc = sess.send("getbulk", [base], maxrep=[1, 10, 127, 128, 255, 65535, 2 ** 31 - 1][k % 7])
    else:
        w, exc = sess.send("refresh", [])
    if w is None or fate == "abandoned":
        return
    req = ag.Request(cfg, w)
    vbs = [(bytes(n), ("int", k)) for n in req.names[:2]]
    if op in ("getnext", "getbulk") and req.names:
        vbs = [(bytes(req.names[0]) + bytes([1]), ("int", k))]
    if fate == "answered":
        sess.inject(agent.reply(cfg, req, vbs))
    elif fate == "stray-then-answered":
        sess.inject(agent.reply(cfg, req, vbs, reqid=(req.reqid + 1) & 0x7fffffff))
        sess.inject(agent.reply(cfg, req, vbs))
    elif fate == "decode-error":
        sess.inject(agent.reply(cfg, req, vbs)[:-2])
    sess.recv(op)


def run_history(rec, pair, hist, k0):
    std = scripts.all_cfgs()
    a = rec.n
    cfgs = {"A": std[pair[0]], "B": std[pair[1]]}
    sess = {"A": rawdrv.RawSession(rec, cfgs["A"], sid=1), "B": rawdrv.RawSession(rec, cfgs["B"], sid=2)}
    agents = {"A": ag.Agent(), "B": ag.Agent()}
    for j, c in enumerate(hist):
        do_call(sess[c["s"]], agents[c["s"]], cfgs[c["s"]], c["op"], c["fate"], k0 + j)
    # finally one plain request on each session: must be exact whatever happened before
    for s in ("A", "B"):
        sess[s].send("get_many", ["1.3.6.1.2.1.1.1.0", "1.3.6.1.2.1.1.2.0"])
    sess["A"].close()
    sess["B"].close()
    return a, rec.n


def concurrent_sessions(rec, rounds, nthreads=4):
    """nthreads Python threads, each with its own session of a different kind, send (and sometimes receive) at the
    same time; the Rust send/receive paths run with the GIL released, so they really share the buffer pool."""
    import threading
    std = scripts.std_cfgs()
    kinds = ["v2c", "v3-md5-des", "v1", "v3-sha1-aes"]
    lock = threading.Lock()

    class LockedRec:
        def __init__(self, inner):
            self.inner = inner

        @property
        def n(self):
            return self.inner.n

        def emit(self, e):
            with lock:
                self.inner.emit(e)
    lrec = LockedRec(rec)
    a = rec.n
    sessions = [rawdrv.RawSession(lrec, std[kinds[i % len(kinds)]], sid=i + 1) for i in range(nthreads)]
    barrier = threading.Barrier(nthreads)

    def work(i):
        s = sessions[i]
        cfg = s.cfg
        agent = ag.Agent()
        barrier.wait()
        for j in range(rounds):
            n = [1, 3, 40, 2, 150, 1][(i + j) % 6]
            oids = ["1.3.6.1.4.1.%d.%d" % (1000 + i, 100000 + j * 7 + k) for k in range(n)]
            op = "get" if n == 1 else "get_many"
            w, exc = s.send(op, oids)
            if w is not None and (i + j) % 3 == 0:
                req = ag.Request(cfg, w)
                s.inject(agent.reply(cfg, req, [(bytes(nm), ("int", j)) for nm in req.names[:2]]))
                s.recv(op)
    ths = [threading.Thread(target=work, args=(i,)) for i in range(nthreads)]
    for t in ths:
        t.start()
    for t in ths:
        t.join()
    for s in sessions:
        s.close()
    return a, rec.n


class _NullRec:
    n = 0

    def emit(self, e):
        pass


def run_sendfail(rec, pair, k):
    """Session A's peer has gone away: its first send leaves, the ICMP port-unreachable comes back, its next send() fails AFTER the
    message was built (ECONNREFUSED).  A is environment only (not recorded); what is judged is what session B - same thread, any
    version - puts on the wire right afterwards, and A2 (a live session of A's kind) after that."""
    import time as _t
    std = scripts.all_cfgs()
    a0 = rec.n
    dead = rawdrv.RawSession(_NullRec(), std[pair[0]], sid=3)
    dead.kill_agent()
    live = rawdrv.RawSession(rec, std[pair[1]], sid=1)
    other = rawdrv.RawSession(rec, std[pair[0]], sid=2)
    for j in range(3):
        dead.send(["get", "get_many", "getbulk"][(j + k) % 3] if std[pair[0]].ver != "v1" else "get",
                  ["1.3.6.1.4.1.5555.%d.%d" % (k, j)] + (["1.3.6.1.4.1.5555.9.%d" % j] if (j + k) % 3 == 1 else []), maxrep=5)
        _t.sleep(0.002)                                     # let the ICMP error reach the socket
        op = ["get", "get_many", "getnext"][(j + k) % 3]
        live.send(op, ["1.3.6.1.2.1.1.%d.0" % (j + 1)] + (["1.3.6.1.2.1.1.%d.1" % (j + 1)] if op == "get_many" else []))
        other.send("get", ["1.3.6.1.2.1.2.%d.0" % (j + 1)])
    live.close()
    other.close()
    return a0, rec.n


async def fetch_policy(rec):
    """fetch() through the real SnmpSession: GetBulk on v2c/v3 with bulk allowed, GetNext otherwise"""
    std = scripts.std_cfgs()
    runs = []
    mib = [bytes([43, 6, 1, 4, 1, 206, 15, 5, i]) for i in range(1, 4)]
    for cn in ("v1", "v2c", "v3-md5", "v2c-auto", "v3-md5-auto", "v3-noauth-auto"):
        auto = cn.endswith("-auto")            # protocol version left to the documented default (v3 iff a user is given)
        cn = cn[:-5] if auto else cn
        for allow in (True, False):
            for kind in ("async", "sync"):
                a = rec.n
                cfg = std[cn]
                agent = ag.Agent(engine=cfg.engine or None) if cfg.engine else ag.Agent()
                holder = {}
                if kind == "async":
                    api = await apidrv.AsyncApi.create(rec, cfg, lambda req: holder["r"](req), timeout=0.3, allow_bulk=allow, max_repetitions=7, auto_version=auto)
                else:
                    api = apidrv.SyncApi(rec, cfg, lambda req: holder["r"](req), timeout=0.3, allow_bulk=allow, max_repetitions=7, auto_version=auto)
                holder["r"] = walks.honest_responder(agent, api.cfgref, mib, 3)
                expect_bulk = allow and cfg.ver != "v1"
                if kind == "async":
                    await walks.walk_async(api, "getbulk" if expect_bulk else "getnext", "1.3.6.1.4.1.9999.5", 7 if expect_bulk else None, honest=True, mib=mib, fetch=True)
                else:
                    walks.walk_sync(api, "getbulk" if expect_bulk else "getnext", "1.3.6.1.4.1.9999.5", 7 if expect_bulk else None, honest=True, mib=mib, fetch=True)
                api.close()
                runs.append((a, rec.n, dict(kind="fetch", cfg=cn, allow_bulk=allow, client=kind, auto_version=auto)))
    return runs


async def api_iterables(rec):
    """get_many() takes any iterable of OIDs: lists, tuples, generators, iterators, map objects, dict views.  Whatever it is given, the
    request names exactly those OIDs in that order (both clients)."""
    std = scripts.std_cfgs()
    runs = []
    oids = ["1.3.6.1.4.1.9999.5.%d" % i for i in (1, 2, 3)]
    mib = [bytes([43, 6, 1, 4, 1, 206, 15, 5, i]) for i in range(1, 4)]
    forms = [("list", lambda: list(oids)), ("tuple", lambda: tuple(oids)), ("generator", lambda: (o for o in oids)), ("iter", lambda: iter(list(oids))),
             ("map", lambda: map(str, oids)), ("dict-keys", lambda: dict.fromkeys(oids).keys()), ("reversed", lambda: reversed(oids[::-1]))]
    for cn in ("v2c", "v3-md5"):
        for kind in ("sync", "async"):
            for fname, make in forms:
                a = rec.n
                cfg = std[cn]
                agent = ag.Agent(engine=cfg.engine or None) if cfg.engine else ag.Agent()
                holder = {}
                if kind == "async":
                    api = await apidrv.AsyncApi.create(rec, cfg, lambda req: holder["r"](req), timeout=0.5)
                else:
                    api = apidrv.SyncApi(rec, cfg, lambda req: holder["r"](req), timeout=0.5)
                holder["r"] = walks.honest_responder(agent, api.cfgref, mib, 3)
                api.ctx.walk, api.ctx.oids, api.ctx.op = False, list(oids), "get_many"
                try:
                    r = api.session.get_many(make())
                    if kind == "async":
                        await r
                except BaseException as e:  # noqa
                    if type(e).__name__ == "TimeoutError" and kind == "async":
                        apidrv.api_result_event(api.rec2, api.sid, "get_many", e)
                api.close()
                runs.append((a, rec.n, dict(kind="iterable", cfg=cn, client=kind, form=fname)))
    return runs


def run(tier):
    chk = Check("C03", tier)
    thorough = tier == "thorough"
    rng = random.Random(SEED)
    chk.rule = ("every history of Pool.tla of length 2 (thorough: 3, sampled) over 2 sessions x 5 operations x 6 fates on real socket pairs of different versions; "
                "seeded random calls; fetch() policy through the real clients; every emitted datagram is judged; distinct = (session pair, history) / datagram; "
                "non-trivial = history in which an earlier call used the shared pool before the judged request")
    res = mc_pool(2 if not thorough else 4)
    tlc.require_ok(res, "MC_Pool")
    tlc.require_coverage(res, ["Call"], "MC_Pool")
    chk.add_tlc(res, "MC_Pool")
    xres = mc_pool(2, export=True)
    tlc.require_ok(xres, "pool export")
    hists = [x["history"] for x in xres.printed if isinstance(x, dict) and "history" in x]
    chk.add_tlc(xres, "pool history export")
    if len(hists) < 3600:
        raise ToolError("history export incomplete")
    if thorough:
        x3 = mc_pool(3, export=True)
        h3 = [x["history"] for x in x3.printed if isinstance(x, dict) and "history" in x]
        chk.add_tlc(x3, "pool history export (3)")
        hists += [h for i, h in enumerate(h3) if (i + SEED) % 11 == 0]
    rec = trace.Recorder("c03")
    runs = []
    for i, h in enumerate(hists):
        if not thorough and (i + SEED) % 3:
            continue
        pair = PAIRS[i % len(PAIRS)]
        a, b = run_history(rec, pair, h, i)
        runs.append((a, b, dict(kind="history", pair=pair, history=h)))
        chk.case((pair, json.dumps(h, sort_keys=True)))
    # a failed send() (peer gone) of one session, then requests of other sessions on the same thread
    for k, pair in enumerate(PAIRS[:6] if not thorough else PAIRS * 3):
        a, b = run_sendfail(rec, pair, k)
        runs.append((a, b, dict(kind="sendfail", pair=pair, k=k)))
        chk.case(("sendfail", pair, k))
    # random calls
    std = scripts.std_cfgs()
    names = list(std)
    for i in range(60 if not thorough else 600):
        cn = names[i % len(names)]
        cfg = std[cn]
        a = rec.n
        s = rawdrv.RawSession(rec, cfg)
        for j in range(25):
            op = rng.choice(["get", "get_many", "getnext", "getbulk"] if cfg.ver != "v1" else ["get", "get_many", "getnext"])
            n = rng.choice([1, 2, 3, 8, 30]) if op == "get_many" else 1
            oids = [".".join([str(rng.choice([0, 1, 2])), str(rng.randrange(40))] + [str(rng.choice([rng.randrange(2 ** 32), rng.randrange(300), 127, 128, 16383, 16384]))
                                                                                      for _ in range(rng.randrange(0, 14))]) for _ in range(n)]
            if rng.random() < 0.25:
                # OIDs whose encoded contents cross the 127/128 and 255/256 length-form boundaries
                tgt = rng.choice([126, 127, 128, 129, 130, 254, 255, 256, 257, 300])
                oids = [long_oid(tgt + rng.choice([0, 0, 1, -1]), rng) for _ in range(n if n < 4 else 2)]
            mr = rng.choice([1, 2, 127, 128, 255, 256, 65535, 65536, 2 ** 31 - 1, rng.randrange(1, 2 ** 31)])
            s.send(op, oids, maxrep=mr if op == "getbulk" else None)
        s.close()
        runs.append((a, rec.n, dict(kind="random", cfg=cn, seed=SEED, index=i)))
        chk.case(("random", cn, i), n=25)
    # credentials across the length forms of their own headers: communities / user names / engine ids of 0 .. 300 octets (the library
    # takes what it is given): every request of such a session must carry exactly the configured credential, minimally encoded
    for L in (0, 1, 31, 32, 33, 64, 127, 128, 129, 200, 255, 256, 257, 300):
        sweep = [("v1", rawdrv.Cfg("v1", community="c" * L)), ("v2c", rawdrv.Cfg("v2c", community="C" * L))]
        if L >= 1:
            sweep.append(("v3-user", rawdrv.Cfg("v3", user="u" * L, engine=std["v3-noauth"].engine)))
            sweep.append(("v3-auth-user", rawdrv.Cfg("v3", user="w" * L, engine=std["v3-md5"].engine, auth="md5", akt="password", akm=b"authpass10")))
        if L >= 5:
            sweep.append(("v3-engine", rawdrv.Cfg("v3", user="user00", engine=bytes((7 * i + 1) % 256 for i in range(L)))))
        for nm, cfg in sweep:
            a = rec.n
            s = rawdrv.RawSession(rec, cfg)
            for op in (("get", "getnext", "get_many", "getbulk") if cfg.ver != "v1" else ("get", "getnext", "get_many")):
                s.send(op, ["1.3.6.1.2.1.1.%d.0" % (L % 9 + 1)] * (3 if op == "get_many" else 1), maxrep=10 if op == "getbulk" else None)
            s.close()
            runs.append((a, rec.n, dict(kind="credential-length", cfg=nm, L=L)))
            chk.case(("credential-length", nm, L), n=4)
    runs += asyncio.run(fetch_policy(rec))
    runs += asyncio.run(api_iterables(rec))
    # the configured user survives a failed discovery that is retried (every later request goes out under it)
    from checks import c13
    k = 0
    for given in (False,):
        for auth, priv, kt in (("md5", "none", "password"), ("sha1", "aes", "master"), ("none", "none", "password")):
            for calls in (["enter", "enter", "get", "get_many"], ["enter", "refresh", "get"]):
                for drop_at in (0, 1):
                    k += 1
                    cfg = c13.make_cfg(auth, priv, kt, c13.ENGINES["A17"], 700 + k)
                    plan = [("reply", "A17", (i + 1) % len(c13.CLOCKS)) for i in range(8)]
                    plan[drop_at] = "drop"
                    if k % 2:
                        a, b = c13.run_sync(rec, cfg, given, calls, plan)
                    else:
                        a, b = asyncio.run(c13.run_async(rec, cfg, given, calls, plan))
                    runs.append((a, b, dict(kind="retry-after-failed-discovery", auth=auth, priv=priv, calls=calls, drop_at=drop_at)))
                    chk.case(("retry", auth, priv, tuple(calls), drop_at))
    # concurrency: PoolConc.tla at design level, four threads sharing the pool for real
    pres = tlc.run_tlc("PoolConc.tla", "PoolConc.cfg", workers=4, timeout=900)
    tlc.require_ok(pres, "PoolConc")
    tlc.require_coverage(pres, ["Acquire", "Use", "Release"], "PoolConc")
    chk.add_tlc(pres, "PoolConc (3 threads x 3 operations)")
    for r_ in range(4 if not thorough else 16):            # (validation of these four-session traces is the slowest part: ~8 events/s)
        a, b = concurrent_sessions(rec, 20 if not thorough else 40)
        runs.append((a, b, dict(kind="concurrent", round=r_)))
        chk.case(("concurrent", r_), n=100)
    rec.close()
    nd = sum(1 for e in rec.events if e["ev"] == "Send" and e.get("wire"))
    print("  %d runs, %d datagrams judged, %d events" % (len(runs), nd, rec.n), flush=True)
    v = trace.validate_parallel("TraceSession.tla", "TraceSession.cfg", rec.events, [(a, b) for a, b, _ in runs], k=14, name="c03", timeout=3000 if not thorough else 9000)
    for i, r in enumerate(v["results"]):
        chk.add_tlc(r, "TraceSession(c03)#%d" % i)
    chk.traces += len(runs)
    chk.extra["datagrams_judged"] = nd
    ri = 0
    for idx in v["fails"]:
        while runs[ri][1] <= idx:
            ri += 1
        a, b, info = runs[ri]
        ev = rec.events[idx]
        prev = [e for e in rec.events[a:idx] if e["ev"] in ("Send", "Recv")]
        prior = "none" if not prev else ("%s:%s" % (prev[-1]["ev"], prev[-1].get("exc") or "ok"))
        sig = dict(kind=info["kind"], ev=ev["ev"], op=ev.get("op"), got=ev.get("exc") or "ok", prior=prior)
        chk.violation(sig, "%s: %s %s after %s: %s wire=%s" % (json.dumps(info)[:160], ev["ev"], ev.get("op"), prior, ev.get("exc") or "", bytes(ev.get("wire", []))[:40].hex()),
                      dict(info=info, event_index=idx - a), confirm=(confirm_by_replay(replay, dict(info=info)) if (info["kind"] == "fetch" and timing_event(ev)) else None))
    chk.sample(dict(kind="history", pair=runs[10][2]["pair"], history=runs[10][2]["history"]))
    return chk.finish()


def replay(path):
    d = json.load(open(path))
    info = d["replay"]["info"]
    rec = trace.Recorder("c03-replay")
    if info["kind"] == "history":
        run_history(rec, tuple(info["pair"]), info["history"], 0)
    elif info["kind"] == "fetch":
        asyncio.run(fetch_policy(rec))
    elif info["kind"] == "iterable":
        asyncio.run(api_iterables(rec))
    elif info["kind"] == "sendfail":
        run_sendfail(rec, tuple(info["pair"]), info["k"])
    else:
        print("random run: re-run the check with VERIF_SEED=%s" % info.get("seed"))
        return 1
    v = trace.validate("TraceSession.tla", "TraceSession.cfg", rec.close())
    if v["accepted"] and not v["fails"]:
        print("replay: accepted")
        return 0
    print("VIOLATION property=C03 replay=%s" % path)
    return 1
