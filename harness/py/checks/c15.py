"""C15 - everything the library encodes, it decodes back unchanged and minimally.

MC_Codec.tla (TLC) establishes the encode/decode laws of the specification's own codec over bounded universes
(the oracle).  The library's encoders and decoders are run by the Rust replay binary (INTEGER push_ber /
from_ber over i64, OID text -> octets -> TLV -> text, whole request messages encoded and decoded back) and
through the public API (max_repetitions puts any i64 on the wire); every record is judged by TraceCodec.tla /
TraceSession.tla: encoding = THE minimal X.690 form computed by the specification, decode(encode(x)) = x,
no octets left over."""
import json, random
from vlib import env, tlc, trace, corpus, rs, rawdrv, scripts, refcodec as rc
from vlib.report import Check
from vlib.project import bigint, text
from vlib.env import ToolError, SEED


def int_values(thorough, rng):
    vals = set(range(-32768 - 300, 32768 + 300))            # every value of 1..2 content octets (and a bit more)
    if thorough:
        vals |= set(range(-2 ** 23 - 10, 2 ** 23 + 10, 1))     # every value of 1..3 content octets
    w = 2 ** 16 if thorough else 256
    for k in range(1, 9):
        for b in (2 ** (8 * k - 1), 2 ** (8 * k)):
            for s in (1, -1):
                c = s * b
                step = 1 if not thorough or k <= 4 else 1
                for d in range(-w, w + 1):
                    v = c + d
                    if -2 ** 63 <= v < 2 ** 63:
                        vals.add(v)
    for _ in range(200000 if thorough else 20000):
        vals.add(rng.randrange(-2 ** 63, 2 ** 63))
        vals.add(rng.randrange(-2 ** 40, 2 ** 40))
    vals |= {0, 1, -1, 2 ** 63 - 1, -2 ** 63}
    return sorted(vals)


def parse_repr_names(rep):
    """names (hex list) and id out of the library's projection 'get id=5 [2b06,2b07]'"""
    try:
        rid = int(rep.split("id=")[1].split(" ")[0])
        inner = rep[rep.rindex("[") + 1:rep.rindex("]")]
        names = [list(bytes.fromhex(x)) for x in inner.split(",") if x]
        return True, rid, names
    except Exception:
        return False, 0, []


def run(tier):
    chk = Check("C15", tier)
    thorough = tier == "thorough"
    rng = random.Random(SEED)
    chk.rule = ("INTEGER: every value of 1..2 (thorough: 1..3) content octets, +-256 (thorough +-65536) around every +-2^(8k-1), +-2^(8k), random i64; "
                "OIDs: the TLC grammar corpus; messages: v1/v2c/v3 Get/GetNext with 0..n OIDs across length-form boundaries; "
                "distinct = value / string / message; non-trivial = negative or multi-octet INTEGER, accepted OID, message with >= 1 varbind")
    # 1. the oracle's own laws
    lawcfg = "CONSTANTS MaxOctets = %d\n" % (2 if thorough else 1)
    law, res = corpus.generate("MC_Codec.tla", ["Wire.tla", "SNMP.tla", "BER.tla", "Octets.tla"], lawcfg, timeout=1800)
    if res:
        chk.add_tlc(res, "MC_Codec laws")
    chk.extra["codec_laws"] = "MC_Codec.tla ASSUMEs hold (MaxOctets=%d)" % (2 if thorough else 1)
    # 2. INTEGER through the library's encoder/decoder
    vals = int_values(thorough, rng)
    obs = rs.run([{"op": "int_enc", "v": str(v)} for v in vals])
    rec = trace.Recorder("c15")
    B = 4000
    batches = []
    for i in range(0, len(vals), B):
        recs = []
        for v, o in zip(vals[i:i + B], obs[i:i + B]):
            if o.get("r") != "ok":
                recs.append(dict(v=bigint(v), tlv=[], backok=False, back=bigint(0), rest=0, crash=o.get("r")))
                continue
            back_ok = o.get("back", "") != ""
            recs.append(dict(v=bigint(v), tlv=o["tlv"], backok=back_ok, back=bigint(int(o["back"])) if back_ok else bigint(0), rest=o["rest"]))
        a = rec.n
        rec.emit(dict(ev="IntBatch", recs=recs))
        batches.append((a, rec.n, "int", vals[i:i + B]))
    for v in vals:
        chk.case(("int", v), nontrivial=(v < 0 or v > 127))
    # 3. OIDs
    table, res = corpus.generate("OidTexts.tla", ["BER.tla", "Octets.tla"], "CONSTANTS Depth = 3\n")
    if res:
        chk.add_tlc(res, "OidTexts.tla")
    strs = [t["s"] for t in table if "s" in t]
    if not thorough:
        strs = [s for i, s in enumerate(strs) if (i + SEED) % 4 == 0 or len(s) > 30]
    reqs = []
    for s in strs:
        try:
            reqs.append({"op": "oid_text", "s": bytes(s).decode("ascii")})
        except Exception:
            reqs.append({"op": "oid_text", "s": bytes(s).decode("latin1")})
    obs = rs.run(reqs)
    for i in range(0, len(strs), B):
        recs = []
        for s, o in zip(strs[i:i + B], obs[i:i + B]):
            ok = o.get("r") == "ok"
            recs.append(dict(s=s, ok=ok, content=o.get("content", []) if ok else [], tlv=o.get("tlv", []) if ok and isinstance(o.get("tlv"), list) else [],
                             text=text(o.get("text", "")) if ok else [], crash=o.get("r") if o.get("r") not in ("ok", "err") else ""))
        a = rec.n
        rec.emit(dict(ev="OidBatch", recs=recs))
        batches.append((a, rec.n, "oid", strs[i:i + B]))
    for s in strs:
        chk.case(("oid", bytes(s).hex()), nontrivial=46 in s)
    # 4. whole request messages: encode with the library, decode back with the library and with the specification
    msgs = []
    for ver in ("v1", "v2c", "v3"):
        for ptype in ("get", "getnext"):
            for n in ([0, 1, 2, 3, 9, 10, 30] if not thorough else list(range(0, 60))):
                for arcs in ([3, 12] if not thorough else [2, 3, 7, 12, 40, 100]):
                    rid = rng.choice([0, 1, 127, 128, 255, 256, 65535, 2 ** 31 - 1, rng.randrange(2 ** 31)])
                    oids = [".".join(["1", "3"] + [str((j * 37 + k * 11) % 200000) for k in range(arcs - 2)]) for j in range(n)]
                    m = {"op": "msg_rt", "ver": ver, "community": list(b"public" if n % 2 else b"c" * 130),
                         "pdu": {"type": ptype, "id": str(rid), "oids": oids}}
                    if ver == "v3":
                        m.update(engine=list(bytes(range(1, 12))), user=list(b"user"), auth_params=[], priv_params=[], msg_id=str(rid),
                                 boots=str(rng.choice([0, 1, 127, 128, 2 ** 31 - 1])), time=str(rng.choice([0, 255, 256, 2 ** 31 - 1])), fa=False, fr=(n == 0))
                    msgs.append((m, rid, oids))
    # OBJECT IDENTIFIERs whose contents sit on the length-form boundaries (127/128, 255/256 octets) and far beyond: one to three per message
    def oid_with_len(L, salt):
        a, b = (L - 1) // 2, (L - 1) % 2
        return ".".join(["1", "3"] + [str(128 + (salt + k) % 16000) for k in range(a)] + ["5"] * b)
    for ver in ("v1", "v2c", "v3"):
        for ptype in ("get", "getnext"):
            for L in ([126, 127, 128, 129, 254, 255, 256, 257, 300, 1000] if not thorough else list(range(120, 135)) + list(range(250, 262)) + [300, 511, 512, 1000, 1300]):
                for n in (1, 2, 3):
                    if ptype == "getnext" and n > 1:
                        continue
                    rid = rng.choice([1, 128, 65535, 2 ** 31 - 1])
                    oids = [oid_with_len(L + j, L * 3 + j) for j in range(n)]
                    m = {"op": "msg_rt", "ver": ver, "community": list(b"public"), "pdu": {"type": ptype, "id": str(rid), "oids": oids}}
                    if ver == "v3":
                        m.update(engine=list(bytes(range(1, 12))), user=list(b"user"), auth_params=[], priv_params=[], msg_id=str(rid), boots="1", time="255", fa=False, fr=False)
                    msgs.append((m, rid, oids))
    # OCTET STRING fields of the messages (community, user name, engine id) across the length forms of their own headers
    for L in (0, 1, 31, 32, 33, 64, 127, 128, 129, 255, 256, 300):
        for ver in ("v1", "v2c", "v3"):
            rid = 4242 + L
            oids = ["1.3.6.1.2.1.1.%d.0" % (L % 9 + 1)]
            m = {"op": "msg_rt", "ver": ver, "community": list(b"c" * L), "pdu": {"type": "get", "id": str(rid), "oids": oids}}
            if ver == "v3":
                for which in ("user", "engine"):
                    m3 = dict(m)
                    m3.update(engine=list(bytes((i * 5 + 1) % 256 for i in range(L if which == "engine" else 11))), user=list(b"n" * (L if which == "user" else 4)),
                              auth_params=[], priv_params=[], msg_id=str(rid), boots="1", time="255", fa=False, fr=False)
                    msgs.append((m3, rid, oids))
            else:
                msgs.append((m, rid, oids))
    obs = rs.run([m for m, _, _ in msgs])
    recs = []
    if any(o.get("r") == "unavailable" for o in obs):
        chk.assumptions.append("the Rust replay binary was built without its message-construction operation for this tree (a message struct changed shape): "
                               "message round trips at the Rust level were skipped; the session-level checks (C03, C17) see the same encoders")
    for (m, rid, oids), o in zip(msgs, obs):
        names = [list(rc.oid_from_text(t)) for t in oids]
        if o.get("r") == "unavailable":
            continue
        if o.get("r") != "ok":
            if o.get("r") == "err" and o.get("e") == "OutOfBuffer":
                continue                                  # does not fit the buffer: outside C15's quantifier (C17)
            recs.append(dict(ver=m["ver"], wire=[], names=names, id=bigint(rid), backok=False, backnames=[], backid=bigint(0),
                             community=m["community"], user=m.get("user", []), engine=m.get("engine", [])))
            continue
        back = o["back"]
        ok, bid, bnames = parse_repr_names(back.get("repr", "")) if back.get("r") == "ok" else (False, 0, [])
        recs.append(dict(ver=m["ver"], wire=o["wire"], names=names, id=bigint(rid), backok=ok, backnames=bnames, backid=bigint(bid),
                         community=m["community"], user=m.get("user", []), engine=m.get("engine", [])))
        chk.case(("msg", m["ver"], m["pdu"]["type"], len(oids), rid), nontrivial=len(oids) > 0)
    mrecs = recs
    for i in range(0, len(recs), 200):
        a = rec.n
        rec.emit(dict(ev="MsgBatch", recs=recs[i:i + 200]))
        batches.append((a, rec.n, "msg", recs[i:i + 200]))
    rec.close()
    print("  %d ints, %d oid strings, %d messages, %d batches" % (len(vals), len(strs), len(mrecs), len(batches)), flush=True)
    v = trace.validate_parallel("TraceCodec.tla", "TraceCodec.cfg", rec.events, [(a, b) for a, b, _, _ in batches], k=12, name="c15")
    bad = {}
    for r in v["results"]:
        for p in r.printed:
            if isinstance(p, dict) and "badrecs" in p:
                pass
    for i, r in enumerate(v["results"]):
        chk.add_tlc(r, "TraceCodec(c15)#%d" % i)
    chk.traces += len(batches)
    # failing records: TLC printed the first 40 record numbers of every failing batch
    for idx in v["fails"]:
        a, b, kind, items = [x for x in batches if x[0] == idx][0]
        ev = rec.events[idx]
        info = v["badrecs"].get(idx, dict(n=0, first=[]))
        for f in info["first"]:
            r_ = ev["recs"][f - 1]
            if kind == "int":
                val = items[f - 1]
                n = (abs(val).bit_length() + 8) // 8
                sig = dict(kind="int", neg=val < 0, octets=n)
                chk.violation(sig, "INTEGER %d encoded as %s decoded back as %s" % (val, bytes(r_["tlv"]).hex(), json.dumps(r_["back"])), dict(kind="int", v=str(val), rec=r_))
            elif kind == "oid":
                chk.violation(dict(kind="oid"), "OID text %r: %s" % (bytes(r_["s"]).decode("latin1")[:50], json.dumps(r_)[:200]), dict(kind="oid", rec=r_))
            else:
                chk.violation(dict(kind="msg", ver=r_["ver"]), "message round trip: %s" % json.dumps(r_)[:300], dict(kind="msg", rec=r_))
        if info["n"] > len(info["first"]):
            chk.violation(dict(kind=kind, more=True), "%d more failing %s records in the same batch" % (info["n"] - len(info["first"]), kind), dict(kind=kind))
    # 5. through the public API: max_repetitions puts an arbitrary i64 on the wire
    rec2 = trace.Recorder("c15-api")
    cfg = scripts.std_cfgs()["v2c"]
    api_vals = [0, 1, -1, 127, 128, -128, -129, 255, 256, -32767, -32768, 32767, 32768, 2 ** 31 - 1, 2 ** 31, -2 ** 31, 2 ** 63 - 1, -2 ** 63, -2 ** 63 + 1]
    api_vals += [rng.randrange(-2 ** 63, 2 ** 63) for _ in range(2000 if thorough else 300)]
    runs = []
    for v_ in api_vals:
        a = rec2.n
        s = rawdrv.RawSession(rec2, cfg)
        s.send("getbulk", ["1.3.6.1.2.1"], maxrep=v_)
        s.close()
        runs.append((a, rec2.n, v_))
        chk.case(("api-int", v_))
    # the messages real sessions emit, after histories that leave something behind in the send path: a refused (oversize) request,
    # a send() that failed after the message was built (peer gone), requests of other sessions on the same thread in between
    from checks import c03
    for k, pair in enumerate(c03.PAIRS[:6] if not thorough else c03.PAIRS * 2):
        a, b = c03.run_sendfail(rec2, pair, k)
        runs.append((a, b, ("history", "sendfail", pair, k)))
        chk.case(("history", "sendfail", pair, k))
        a = rec2.n
        c03.run_history(rec2, pair, [{"s": "A", "op": "get_many", "fate": "oversize"}, {"s": "B", "op": "get", "fate": "answered"}, {"s": "A", "op": "getbulk", "fate": "answered"}], k)
        runs.append((a, rec2.n, ("history", "oversize", pair, k)))
        chk.case(("history", "oversize", pair, k))
    # OCTET STRING fields whose CONTENTS look like something else: runs of twelve and more zero octets (IPv6-format engine ids of ::1 /
    # fe80::1, zero-padded ids, binary user names - the msgAuthenticationParameters placeholder is twelve zero octets too), runs of ff
    for k, (nm, cfgz) in enumerate(zero_run_cfgs()):
        a = rec2.n
        sz = rawdrv.RawSession(rec2, cfgz)
        for op in (("get", "get_many", "getnext", "getbulk", "refresh") if cfgz.ver == "v3" else ("get", "get_many", "getnext", "getbulk")):
            sz.send(op, [] if op == "refresh" else ["1.3.6.1.2.1.1.%d.0" % (k % 7 + 1)] * (2 if op == "get_many" else 1), maxrep=3 if op == "getbulk" else None)
        sz.close()
        runs.append((a, rec2.n, ("history", "zero-run", (nm,), k)))
        chk.case(("history", "zero-run", nm))
    rec2.close()
    v2 = trace.validate_parallel("TraceSession.tla", "TraceSession.cfg", rec2.events, [(a, b) for a, b, _ in runs], k=4, name="c15api")
    for i, r in enumerate(v2["results"]):
        chk.add_tlc(r, "TraceSession(c15 api)#%d" % i)
    chk.traces += len(runs)
    ri = 0
    for idx in v2["fails"]:
        while runs[ri][1] <= idx:
            ri += 1
        val = runs[ri][2]
        if isinstance(val, tuple):
            ev = rec2.events[idx]
            chk.violation(dict(kind="session-message", history=val[1], ev=ev["ev"], got=ev.get("exc") or "sent"),
                          "sessions %s after a %s history: %s %s is not the minimal encoding of the request (wire %s)" % (list(val[2]), val[1], ev["ev"], ev.get("op"), bytes(ev.get("wire", []))[:48].hex()),
                          dict(kind="session-message", history=val[1], pair=list(val[2]), k=val[3]))
            continue
        n = (abs(val).bit_length() + 8) // 8
        chk.violation(dict(kind="int", neg=val < 0, octets=n), "max_repetitions=%d on the wire: %s" % (val, bytes(rec2.events[idx]["wire"]).hex()),
                      dict(kind="api-int", v=str(val), event=rec2.events[idx]))
    # names as the walk iterators hand them back: text of exactly the name the agent sent, for neighbours inside every length class
    # of the sub-identifier encoding (one iterator object renders a whole run of rows)
    from checks import c08
    from vlib import agent as ag, scripts as _scripts
    rec3 = trace.Recorder("c15rows")
    rruns = c08.row_runs(rec3, _scripts.std_cfgs()["v2c"], ag.Agent())
    rec3.close()
    v3_ = trace.validate_parallel("TraceSession.tla", "TraceSession.cfg", rec3.events, [(a, b) for a, b, _ in rruns], k=4, name="c15rows")
    for i, r in enumerate(v3_["results"]):
        chk.add_tlc(r, "TraceSession(c15 rows)#%d" % i)
    chk.traces += len(rruns)
    ri = 0
    seen_rows = set()
    for idx in v3_["fails"]:
        while rruns[ri][1] <= idx:
            ri += 1
        info = rruns[ri][2]
        label = bytes(info["s"]).decode()
        if label in seen_rows:
            continue
        seen_rows.add(label)
        ev = rec3.events[idx]
        chk.violation(dict(kind="walk-name", op=info["op"], ev=ev["ev"]), "rows %s: %s %s - a name handed back by the iterator is not the name that was sent" % (label, ev["ev"], ev.get("exc") or ""),
                      dict(kind="rows", label=label))
    for _, _, info in rruns:
        chk.case(("rows", bytes(info["s"]).decode()))
    chk.sample(dict(kind="int-record", rec=rec.events[0]["recs"][5]))
    chk.sample(dict(kind="msg-record", rec={k: (v if k != "wire" else v[:40]) for k, v in mrecs[3].items()}))
    return chk.finish()


def zero_run_cfgs():
    out = []
    engines = [("ipv6-loopback", bytes([0x80, 0, 0x1f, 0x88, 2] + [0] * 15 + [1])), ("ipv6-linklocal", bytes([0x80, 0, 0x1f, 0x88, 2, 0xfe, 0x80] + [0] * 13 + [1])),
               ("zero-padded-32", bytes([0x80, 0, 0x1f, 0x88, 4, 9] + [0] * 26)), ("ff-run", bytes([0x80, 0, 0x1f, 0x88, 5] + [0xff] * 14)), ("eleven-zeros", bytes([0x80, 0, 0, 2, 1] + [0] * 11 + [7]))]
    for en, eng in engines:
        for auth, akm in (("md5", b"authpass10"), ("sha1", b"authpass20"), ("none", b"")):
            out.append(("%s-%s" % (en, auth), rawdrv.Cfg("v3", user="zr", engine=eng, auth=auth, akt="password", akm=akm)))
    out.append(("zero-user-md5", rawdrv.Cfg("v3", user="\x00" * 14, engine=engines[4][1], auth="md5", akt="password", akm=b"authpass10")))
    out.append(("zero-user-sha1-aes", rawdrv.Cfg("v3", user="a" + "\x00" * 12, engine=engines[0][1], auth="sha1", akt="password", akm=b"authpass20", priv="aes", pkt="password", pkm=b"privpass22")))
    out.append(("zero-community", rawdrv.Cfg("v2c", community="\x00" * 13)))
    return out


def replay(path):
    d = json.load(open(path))
    r = d["replay"]
    if r.get("kind") in ("int", "api-int"):
        o = rs.run([{"op": "int_enc", "v": r["v"]}])[0]
        v = int(r["v"])
        exp = rc.enc_int(v)
        print("library:", o, "reference:", list(exp))
        if o.get("tlv") != list(exp) or o.get("back") != str(v):
            print("VIOLATION property=C15 replay=%s" % path)
            return 1
        return 0
    if r.get("kind") == "rows":
        from checks import c08
        from vlib import agent as ag, scripts as _scripts
        rec3 = trace.Recorder("c15rows-replay")
        c08.row_runs(rec3, _scripts.std_cfgs()["v2c"], ag.Agent())
        v = trace.validate("TraceSession.tla", "TraceSession.cfg", rec3.close())
        if v["accepted"] and not v["fails"]:
            print("replay: accepted")
            return 0
        print("VIOLATION property=C15 replay=%s" % path)
        return 1
    if r.get("kind") == "session-message" and r.get("history") == "zero-run":
        rec = trace.Recorder("c15-replay")
        for nm, cfgz in zero_run_cfgs():
            if nm == r["pair"][0]:
                sz = rawdrv.RawSession(rec, cfgz)
                for op in (("get", "get_many", "getnext", "getbulk", "refresh") if cfgz.ver == "v3" else ("get", "get_many", "getnext", "getbulk")):
                    sz.send(op, [] if op == "refresh" else ["1.3.6.1.2.1.1.1.0"] * (2 if op == "get_many" else 1), maxrep=3 if op == "getbulk" else None)
                sz.close()
        v = trace.validate("TraceSession.tla", "TraceSession.cfg", rec.close())
        if v["accepted"] and not v["fails"]:
            print("replay: accepted")
            return 0
        print("VIOLATION property=C15 replay=%s" % path)
        return 1
    if r.get("kind") == "session-message":
        from checks import c03
        rec = trace.Recorder("c15-replay")
        if r["history"] == "sendfail":
            c03.run_sendfail(rec, tuple(r["pair"]), r["k"])
        else:
            c03.run_history(rec, tuple(r["pair"]), [{"s": "A", "op": "get_many", "fate": "oversize"}, {"s": "B", "op": "get", "fate": "answered"}, {"s": "A", "op": "getbulk", "fate": "answered"}], r["k"])
        v = trace.validate("TraceSession.tla", "TraceSession.cfg", rec.close())
        if v["accepted"] and not v["fails"]:
            print("replay: accepted")
            return 0
        print("VIOLATION property=C15 replay=%s" % path)
        return 1
    print(json.dumps(r)[:2000])
    return 0
