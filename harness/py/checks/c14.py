"""C14 - privacy salts never repeat and nothing confidential goes in clear.

Privacy.tla (TLC): SaltFresh per key installation, with the counter modelled modulo 8 (wrap reasoning).
Long single-session runs of mixed request types interleaved with encrypted replies, plaintext reports, timeouts
and set_keys() (accepted and refused) are recorded from real DES / AES sessions; TraceSession.tla (Props = {C14}) reads
msgPrivacyParameters and msgFlags of every datagram: 8 octets, never seen before within the key installation,
previous + 1 (DES: boots || 32-bit counter, AES: 64-bit counter), priv flag set, msgData an OCTET STRING, and the
request's OID octets occur nowhere in the datagram.  Four sessions cross the counter's wrap-around (positioned through the
verif_set_salt hook): the salt after ff..ff is 00..00, still unique within the installation."""
import json, random
from vlib import trace, scripts, v3hist, tlc
from vlib.report import Check, confirm_by_replay, timing_event
from vlib.env import SEED
from checks import c11

PROPS = '{"C14"}'


def long_script(rng, n):
    s = []
    for i in range(n):
        s.append({"a": "send", "n": rng.choice([5, 8, 40])})
        c = rng.random()
        if c < 0.5:
            s.append({"a": "reply-enc"})
        elif c < 0.65:
            s.append({"a": "reply-plain-report"})
        elif c < 0.85:
            s.append({"a": "timeout"})
        elif c < 0.88:
            s.append({"a": "set-keys"})
        elif c < 0.91:
            s.append({"a": "set-keys-bad"})      # refused installation: the counter of the installation in force goes on
        # else: abandoned, next send follows directly
    return s


def run(tier):
    chk = Check("C14", tier)
    thorough = tier == "thorough"
    rng = random.Random(SEED)
    chk.rule = ("long seeded single-session runs (mixed get/get_many/getnext, encrypted replies, plaintext reports, timeouts, set_keys) on real "
                "DES and AES sessions; every emitted datagram is one evaluation; distinct = distinct (session, salt) pairs observed; "
                "non-trivial = message sent after at least one earlier message of the same key installation")
    for cipher in ("des", "aes"):
        res = c11.mc_privacy(cipher, 6 if thorough else 5)
        tlc.require_ok(res, "MC_Privacy " + cipher)
        chk.add_tlc(res, "MC_Privacy %s (SaltFresh, modulo 8)" % cipher)
    std = scripts.std_cfgs()
    rec = trace.Recorder("c14")
    runs = []
    nsess = 12 if not thorough else 24
    per = 700 if not thorough else 4000
    for i in range(nsess):
        cn = ["v3-md5-des", "v3-sha1-aes", "v3-sha1-des", "v3-md5-aes"][i % 4]
        s = long_script(rng, per)
        a, b = v3hist.run_history(rec, std[cn], s, variant=i)
        runs.append((a, b, dict(cfgname=cn, n=per, seed=SEED, index=i)))
    # counter wrap-around (DES: 32-bit, AES: 64-bit): the counter is positioned just below the wrap (verification hook) and the
    # session goes on sending across it - with replies, refusals and timeouts in between
    from vlib import env as _env
    wrapcfgs = ["v3-md5-des", "v3-sha1-aes", "v3-sha1-des", "v3-md5-aes"]
    if _env.hooks_level() != "full":
        wrapcfgs = []
        chk.assumptions.append("hooks level '%s': the wrap-around sessions (verif_set_salt) were skipped for this tree" % _env.hooks_level())
    for i, cn in enumerate(wrapcfgs):
        top = 2 ** 32 if "des" in cn else 2 ** 64
        s = [{"a": "send", "n": 5}, {"a": "reply-enc"}, {"a": "set-salt", "v": top - 4 - i}]
        for j in range(12):
            s.append({"a": "send", "n": [5, 8, 40][(i + j) % 3]})
            s.append({"a": ["reply-enc", "timeout", "reply-plain-report", "reply-enc"][(i + j) % 4]})
        s += [{"a": "set-salt", "v": top - 1}, {"a": "send", "n": 8}, {"a": "send", "n": 5}, {"a": "reply-enc"}, {"a": "send", "n": 40}]
        a, b = v3hist.run_history(rec, std[cn], s, variant=i)
        runs.append((a, b, dict(cfgname=cn, n=0, seed=SEED, index=100 + i, wrap=True, script=s)))
    # public-API histories of privacy users: discovery datagrams lost, enter / refresh retried, then requests - every request that
    # leaves afterwards must still be the configured user's (priv flag, encrypted scoped PDU), not the key-less default user's
    from checks import c13
    nlong = len(runs)
    runs += c13.lost_discovery_histories(rec, [("md5", "des", "password"), ("sha1", "aes", "password"), ("md5", "aes", "master"), ("sha1", "des", "localized")], thorough, base_idx=700)
    rec.close()
    nmsg = sum(1 for e in rec.events if e["ev"] == "Send" and not e.get("exc"))
    print("  %d sessions, %d messages, %d events" % (len(runs), nmsg, rec.n), flush=True)
    v = trace.validate_parallel("TraceSession.tla", c11.trace_cfg(PROPS), rec.events, [(a, b) for a, b, _ in runs], k=nsess, name="c14")
    for i, r in enumerate(v["results"]):
        chk.add_tlc(r, "TraceSession(c14)#%d" % i)
    chk.traces += len(runs)
    chk.evaluations += nmsg
    for e in rec.events:
        if e["ev"] == "Send" and e.get("wire"):
            chk.distinct.add(bytes(e["wire"]).hex()[-64:])
    ri = 0
    for idx in v["fails"]:
        while runs[ri][1] <= idx:
            ri += 1
        a, b, info = runs[ri]
        ev = rec.events[idx]
        if info.get("api_history"):
            chk.violation(dict(kind="api-history", client=info["kind"], ev=ev["ev"], op=ev.get("op"), got=ev.get("exc") or "ok"),
                          "%s session configured with auth=%s priv=%s, calls %s with datagrams %s lost: %s (%s) %s - a request left that is not the configured privacy user's" %
                          (info["kind"], info["auth"], info["priv"], info["calls"], [k for k, p in enumerate(info["plan"]) if p == "drop"], ev["ev"], ev.get("op"), ev.get("exc") or ""),
                          dict(info=info), confirm=(confirm_by_replay(c13.replay, dict(info=info)) if timing_event(ev) else None))
            continue
        cipher = "des" if "des" in info["cfgname"] else "aes"
        chk.violation(dict(cipher=cipher, ev=ev["ev"], got=ev.get("exc") or "sent"),
                      "%s session %d: event %d %s %s" % (info["cfgname"], info["index"], idx - a, ev["ev"], ev.get("exc") or ""),
                      dict(info=info, events=rec.events[max(a, idx - 6):idx + 1]))
    # nothing confidential goes out in clear only if a configured privacy key switches privacy ON: what the User layer hands to the
    # socket for every privacy key a caller may configure (every key type, empty material included) - TraceKeys.tla
    from checks import c12
    kev = [e for e in c12.python_layer_events() if e["ev"] == "UserKeys" and e.get("pcipher")]
    krec = trace.Recorder("c14keys")
    for e in kev:
        krec.emit(e)
    kv = trace.validate("TraceKeys.tla", "TraceKeys.cfg", krec.close(), timeout=900)
    chk.add_tlc(kv["res"], "TraceKeys (privacy keys through User)")
    chk.traces += 1
    for f in kv["fails"][:10]:
        e = kev[f - 1]
        chk.violation(dict(kind="user-privacy-key", kt=e["kt"], pcipher=e["pcipher"], plen=len(e["pkey"])),
                      "User(auth key of %d octets, privacy key (cipher %d, key type %d) of %d octets): handed to the socket: privacy algorithm %s, key of %d octets - a configured privacy key must switch privacy on" %
                      (len(e["akey"]), e["pcipher"], e["kt"], len(e["pkey"]), e.get("palg_out"), len(e["outp"])), dict(info=dict(user_keys=True)))
    for e in kev:
        chk.case(("user-privacy-key", e["aalg"], e["kt"], e["pcipher"], len(e["pkey"]), len(e["akey"])))
    chk.sample(dict(kind="session", info=runs[0][2], first_events=[{k: (x if k not in ("wire", "interp") else "...") for k, x in e.items()} for e in rec.events[runs[0][0]:runs[0][0] + 4]]))
    chk.assumptions += ["2^32 / 2^64 messages are not executed: the counter is positioned below the wrap-around through the cfg(gufo_snmp_verif) hook verif_set_salt and the run crosses it"]
    return chk.finish()


def replay(path):
    d = json.load(open(path))
    info = d["replay"]["info"]
    if info.get("user_keys"):
        from checks import c12
        kev = [e for e in c12.python_layer_events() if e["ev"] == "UserKeys" and e.get("pcipher")]
        krec = trace.Recorder("c14keys-replay")
        for e in kev:
            krec.emit(e)
        kv = trace.validate("TraceKeys.tla", "TraceKeys.cfg", krec.close(), timeout=900)
        if kv["fails"]:
            print("VIOLATION property=C14 replay=%s" % path)
            return 1
        print("replay: accepted")
        return 0
    if info.get("api_history"):
        from checks import c13
        rc = c13.replay(path)
        if rc == 1:
            print("VIOLATION property=C14 replay=%s" % path)
        return rc
    print(json.dumps(d["replay"]["info"]))
    rng = random.Random(info["seed"])
    std = scripts.std_cfgs()
    rec = trace.Recorder("c14-replay")
    if info.get("wrap"):
        s = info["script"]
    else:
        for i in range(info["index"] + 1):
            s = long_script(rng, info["n"])
    a, b = v3hist.run_history(rec, std[info["cfgname"]], s, variant=info["index"])
    v = trace.validate("TraceSession.tla", c11.trace_cfg(PROPS), rec.close(), timeout=3000)
    if v["accepted"] and not v["fails"]:
        print("replay: accepted")
        return 0
    print("VIOLATION property=C14 replay=%s" % path)
    return 1
