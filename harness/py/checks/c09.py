"""C09 - every outgoing authenticated message carries a correct HMAC-96.

Swept on real v3 sockets: everything that moves the msgAuthenticationParameters offset (engine id length, user
name length, boots/time widths adopted from agent replies, request size across the 127/128 and 255/256
length-form boundaries at each nesting level) x {MD5, SHA-1} x {none, DES, AES} x {password, master, localized}
keys, interleaved with traffic of other sessions on the shared buffer pool, plus sessions without a key.
TraceSession.tla (Props = {C09}) decodes each datagram, locates the 12 octets itself, zeroes them, and requires
them to equal HMAC96(alg, Kul(user key, engine id IN the message), zeroed message) - the two uninterpreted terms
being evaluated by hashlib on exactly the arguments TLC derived; without a key the field must be empty and the
auth flag clear.  Buffer.tla (TLC, see C17) establishes that the bookmark used to place the MAC is the offset of
the placeholder iff it was set while building the current message."""
import json, random, itertools
from vlib import trace, scripts, rawdrv, agent as ag, tlc, sesscheck
from vlib.report import Check, confirm_by_replay, timing_event
from vlib.env import SEED, ToolError
from checks import c11

PROPS = '{"C09"}'


FOREIGN_ENGINES = [bytes([0x80, 0, 0x1f, 0x88, 0x80, 9, 9, 9, 9]), bytes([0x80, 0, 0, 2, 1] + list(range(20))), bytes([0x80, 0, 0x1f, 0x88, 7])]


def make_cfg(alg, priv, kt, elen, ulen, idx):
    engine = bytes([0x80, 0, 0x1f, 0x88, 0x80] + [(i * 7 + idx) % 256 for i in range(elen - 5)])
    user = ("u" * ulen) if ulen else ""
    klen = 16 if alg == "md5" else 20
    if kt == "password":
        # the same few passwords are shared by sessions of different digests / ciphers living in one process
        akm, pkm = b"authpass-%d" % (idx % 3), b"privpass-%d" % (idx % 2)
    else:
        akm, pkm = bytes((i * 3 + idx) % 256 for i in range(klen)), bytes((i * 5 + idx + 1) % 256 for i in range(klen))
    return rawdrv.Cfg("v3", user=user, engine=engine, auth=alg, akt=kt, akm=akm, priv=priv, pkt=kt, pkm=pkm if priv != "none" else b"")


def oids_n(n, arcs=9):
    return ["1.3.6.1.2.1.2.2.1.%d.%d" % (i % 20 + 1, 100000 + i) for i in range(n)]


def one_session(rec, cfg, plan, other, sid=1):
    """plan: list of (n_oids, boots, time) - after each request the agent answers with the given boots/time
    (adopted by the session, which changes the width of the next header)."""
    first = rec.n
    s = rawdrv.RawSession(rec, cfg, sid=sid)
    agent = ag.Agent(engine=cfg.engine)
    for j, (n, boots, tm) in enumerate(plan):
        op = "get" if n == 1 else "get_many"
        if n == 0:
            op = "refresh"
        w, exc = s.send(op, oids_n(n))
        if other is not None and j % 2 == 0:
            other.send("get", ["1.3.6.1.2.1.1.%d.0" % (j + 1)])          # other session's traffic through the shared pool
        if w is None:
            continue
        req = ag.Request(cfg, w)
        if j in (1, 4) and not req.broken:
            # a Report that echoes the msgID and user name but names another (non-empty) engine id arrives first: whatever the session
            # makes of it, the messages that follow must carry a MAC under the key localised to the engine id they name
            s.inject(agent.report(cfg, req, engine=FOREIGN_ENGINES[(sid + j + len(cfg.engine)) % len(FOREIGN_ENGINES)]))
            s.recv(op)
        if op == "refresh":
            d = agent.report(cfg, req, boots=boots, time=tm, mac="valid" if cfg.auth != "none" else "absent",
                             flag_auth=cfg.auth != "none", enc="ok" if cfg.priv != "none" else "plain", flag_priv=cfg.priv != "none")
        else:
            d = agent.reply(cfg, req, [(bytes(nm), ("int", 1)) for nm in req.names[:3]], boots=boots, time=tm)
        s.inject(d)
        s.recv(op)
    s.close()
    return first, rec.n


def sized_reply(agent, cfg, req, total):
    """a well-formed matching reply of (about) `total` octets"""
    name = bytes(req.names[0]) if req.names else bytes([43, 6, 1, 2, 1, 1, 1, 0])
    pad = max(0, total - 140)
    d = agent.reply(cfg, req, [(name, ("octets", b"x" * pad))])
    for _ in range(6):
        pad += total - len(d)
        if pad < 0:
            break
        d = agent.reply(cfg, req, [(name, ("octets", b"x" * pad))])
        if len(d) == total:
            break
    while len(d) > total and pad > 0:          # block ciphers cannot hit every size: never above the requested one (4080 is what a receive takes)
        pad -= 1
        d = agent.reply(cfg, req, [(name, ("octets", b"x" * pad))])
    return d


def big_history(rec, cfg_a, cfg_b, plan):
    """Two authenticated sessions take turns; each step: session `who` sends a request of n OIDs and receives a matching reply of
    `rsize` octets (up to the 4080 the receive path takes).  The pooled buffers have by then held large datagrams at their start and
    large requests at their end: the MAC of every request must still be the HMAC of that request with a zeroed field."""
    first = rec.n
    sess = {"a": rawdrv.RawSession(rec, cfg_a, sid=1), "b": rawdrv.RawSession(rec, cfg_b, sid=2)}
    agents = {"a": ag.Agent(engine=cfg_a.engine), "b": ag.Agent(engine=cfg_b.engine)}
    cfgs = {"a": cfg_a, "b": cfg_b}
    for who, n, rsize in plan:
        s, cfg = sess[who], cfgs[who]
        op = "get" if n == 1 else "get_many"
        w, exc = s.send(op, oids_n(n))
        if w is None:
            continue
        req = ag.Request(cfg, w)
        if req.broken:
            continue
        if rsize:
            s.inject(sized_reply(agents[who], cfg, req, rsize))
            s.recv(op)
    for s in sess.values():
        s.close()
    return first, rec.n


BIG_PLANS = [
    [("a", 120, 3900), ("a", 120, 0), ("a", 150, 4080), ("a", 1, 0), ("a", 180, 3000), ("a", 200, 0)],
    [("a", 1, 4080), ("b", 150, 0), ("b", 1, 4000), ("a", 190, 0), ("b", 100, 2500), ("a", 100, 0), ("b", 210, 0)],
    [("a", 100, 2047), ("a", 100, 2049), ("a", 100, 0), ("b", 60, 4079), ("b", 60, 0), ("a", 60, 1500), ("a", 215, 0)],
]


def run(tier):
    chk = Check("C09", tier)
    thorough = tier == "thorough"
    rng = random.Random(SEED)
    chk.rule = ("product of {MD5, SHA-1} x {none, DES, AES} x {password, master, localized} x engine id length {5,17,32} x user length {1,8,32} "
                "x request sizes across the length-form boundaries x boots/time widths, on real sockets sharing the buffer pool with a v2c "
                "session; every emitted datagram is one evaluation; distinct = distinct datagrams; non-trivial = session holds an auth key")
    # design level: the session model with authentication (states for evidence; MAC placement lemma is in Buffer.tla / C17)
    res = sesscheck.mc_session(chk, "v3-md5", 2, 2, 3)
    tlc.require_ok(res, "MC_Session v3-md5")
    chk.add_tlc(res, "MC_Session v3-md5")
    combos = list(itertools.product(["md5", "sha1"], ["none", "des", "aes"], ["password", "master", "localized"], [5, 17, 32], [1, 8, 32]))
    if not thorough:
        combos = [c for i, c in enumerate(combos) if (i + SEED) % 3 == 0]
    sizes = [1, 2, 0, 3, 4, 5, 6, 9, 10, 11, 12, 40] if not thorough else [0] + list(range(1, 14)) + [20, 40, 80, 150]
    bt = [(0, 0), (1, 127), (127, 128), (128, 255), (255, 256), (65535, 65536), (2 ** 31 - 1, 2 ** 31 - 1), (2 ** 24, 1)]
    rec = trace.Recorder("c09")
    runs = []
    other_cfg = scripts.std_cfgs()["v2c"]
    for idx, (alg, priv, kt, elen, ulen) in enumerate(combos):
        cfg = make_cfg(alg, priv, kt, elen, ulen, idx)
        plan = [(sizes[(idx + j) % len(sizes)], bt[(idx + j) % len(bt)][0], bt[(idx + j) % len(bt)][1]) for j in range(6 if not thorough else 12)]
        a = rec.n
        other = rawdrv.RawSession(rec, other_cfg, sid=2)
        one_session(rec, cfg, plan, other, sid=1)
        other.close()
        runs.append((a, rec.n, dict(alg=alg, priv=priv, kt=kt, elen=elen, ulen=ulen, idx=idx, plan=plan)))
    # sessions without an authentication key: field empty, flag clear
    for idx in range(6):
        cfg = rawdrv.Cfg("v3", user="plainuser%d" % idx, engine=bytes([0x80, 0, 0, 1, idx, 9]))
        a = rec.n
        one_session(rec, cfg, [(sizes[j % len(sizes)], 5, 6) for j in range(4)], None)
        runs.append((a, rec.n, dict(alg="none", priv="none", kt="-", elen=6, ulen=10, idx=idx, plan=[])))
    # large datagrams received before large requests are built (same session / another session of the pool)
    bigpairs = [("md5", "none", "sha1", "none"), ("sha1", "none", "md5", "aes"), ("md5", "des", "sha1", "aes")]
    for bi, (a1, p1, a2, p2) in enumerate(bigpairs if not thorough else bigpairs * 3):
        for pi, plan in enumerate(BIG_PLANS):
            ca, cb = make_cfg(a1, p1, "password", 9 + bi, 6, 300 + bi), make_cfg(a2, p2, ["master", "localized", "password"][(bi + pi) % 3], 17, 12, 400 + bi)
            a, b = big_history(rec, ca, cb, plan)
            runs.append((a, b, dict(alg=a1, priv=p1, kt="password", elen=9 + bi, ulen=6, idx=300 + bi, plan=[], big=dict(pair=[a1, p1, a2, p2], bi=bi, pi=pi))))
    # one password, sessions created back to back under alternating digests / ciphers (both orders): nothing derived from the password
    # under one digest may serve another
    for pi, pw in enumerate([b"one-password-for-all", b"maplesyrup"]):
        for si, (alg, priv) in enumerate([("sha1", "none"), ("md5", "none"), ("md5", "aes"), ("sha1", "des"), ("md5", "none"), ("sha1", "aes")]):
            engine = bytes([0x80, 0, 0x1f, 0x88, 0x80, pi, si, 7, 7])
            cfg = rawdrv.Cfg("v3", user="shared%d" % si, engine=engine, auth=alg, akt="password", akm=pw, priv=priv, pkt="password", pkm=pw if priv != "none" else b"")
            a = rec.n
            one_session(rec, cfg, [(1, 1, 5), (2, 1, 6)], None)
            runs.append((a, rec.n, dict(alg=alg, priv=priv, kt="password", elen=9, ulen=7, idx=1000 + pi * 10 + si, plan=[(1, 1, 5), (2, 1, 6)], shared_pw=pw.decode())))
    # public-API histories: discovery datagrams lost, enter / refresh retried - afterwards the session must still sign as the configured user
    from checks import c13
    for a, b, info in c13.lost_discovery_histories(rec, [("md5", "none", "password"), ("sha1", "des", "master"), ("sha1", "aes", "password")], thorough, base_idx=500):
        info.update(alg=info["auth"], elen=17, ulen=7)
        runs.append((a, b, info))
    # passwords of shapes a key-handling layer might be tempted to interpret (through the Python User layer, both clients)
    for a, b, info in c13.shaped_password_sessions(rec, thorough):
        info.update(alg=info["auth"], elen=17, ulen=7, api_history=True)
        runs.append((a, b, info))
    rec.close()
    nmsg = sum(1 for e in rec.events if e["ev"] == "Send" and e.get("wire") and e["sid"] == 1)
    print("  %d sessions, %d v3 messages, %d events" % (len(runs), nmsg, rec.n), flush=True)
    v = trace.validate_parallel("TraceSession.tla", c11.trace_cfg(PROPS), rec.events, [(a, b) for a, b, _ in runs], k=12, name="c09")
    for i, r in enumerate(v["results"]):
        chk.add_tlc(r, "TraceSession(c09)#%d" % i)
    chk.traces += len(runs)
    for e in rec.events:
        if e["ev"] == "Send" and e.get("wire") and e["sid"] == 1:
            chk.case(bytes(e["wire"]).hex()[:400])
    ri = 0
    for idx in v["fails"]:
        while runs[ri][1] <= idx:
            ri += 1
        a, b, info = runs[ri]
        ev = rec.events[idx]
        sig = dict(alg=info["alg"], priv=info["priv"], kt=info["kt"], ev=ev["ev"], sid=ev.get("sid"), got=ev.get("exc") or "sent")
        if info.get("api_history"):
            sig["kind"] = "api-history"
            chk.violation(sig, "%s session configured with auth=%s priv=%s, calls %s with datagrams %s lost: %s (%s) - a request left that is not signed as the configured user" %
                          (info["kind"], info["auth"], info["priv"], info["calls"], [k for k, p in enumerate(info["plan"]) if p == "drop"], ev["ev"], ev.get("op")),
                          dict(info=info), confirm=(confirm_by_replay(c13.replay, dict(info=info)) if timing_event(ev) else None))
            continue
        chk.violation(sig, "auth=%s priv=%s keytype=%s engine_len=%d user_len=%d: %s %s len=%d" % (info["alg"], info["priv"], info["kt"], info["elen"], info["ulen"], ev["ev"], ev.get("exc") or "", len(ev.get("wire", []))),
                      dict(info=info, event_index=idx - a))
    chk.sample(dict(kind="session", info=runs[1][2]))
    chk.assumptions += ["MD5 / SHA-1 / HMAC and RFC 3414 A.2 key localisation are interpreted by hashlib"]
    return chk.finish()


def replay(path):
    d = json.load(open(path))
    info = d["replay"]["info"]
    if info.get("api_history"):
        from checks import c13
        rc = c13.replay(path)
        if rc == 1:
            print("VIOLATION property=C09 replay=%s" % path)
        return rc
    rec = trace.Recorder("c09-replay")
    if info.get("big"):
        a1, p1, a2, p2 = info["big"]["pair"]
        bi, pi = info["big"]["bi"], info["big"]["pi"]
        big_history(rec, make_cfg(a1, p1, "password", 9 + bi, 6, 300 + bi), make_cfg(a2, p2, ["master", "localized", "password"][(bi + pi) % 3], 17, 12, 400 + bi), BIG_PLANS[pi])
        v = trace.validate("TraceSession.tla", c11.trace_cfg(PROPS), rec.close())
        if v["accepted"] and not v["fails"]:
            print("replay: accepted")
            return 0
        print("VIOLATION property=C09 replay=%s" % path)
        return 1
    cfg = make_cfg(info["alg"], info["priv"], info["kt"], info["elen"], info["ulen"], info["idx"]) if info["alg"] != "none" else rawdrv.Cfg("v3", user="plainuser", engine=b"\x80\x00\x00\x01\x00\x09")
    other = rawdrv.RawSession(rec, scripts.std_cfgs()["v2c"], sid=2)
    one_session(rec, cfg, [tuple(p) for p in info["plan"]], other)
    other.close()
    v = trace.validate("TraceSession.tla", c11.trace_cfg(PROPS), rec.close())
    if v["accepted"] and not v["fails"]:
        print("replay: accepted")
        return 0
    print("VIOLATION property=C09 replay=%s" % path)
    return 1
