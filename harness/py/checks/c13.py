"""C13 - engine discovery and time sync follow the agent.

Usm.tla (TLC): StampFollowsAgent, EngineLearnedOnce, KeysLocalizedToLearned, GivenEngineUsedFromFirstMessage,
NoRequestBeforeKeys over every interleaving of probes, requests, accepted / lost replies, key installation and
changes of the agent's identity and clock.  The real sync (`with SnmpSession`) and async (`async with`) clients
are then driven through discovery -> set_keys -> time sync -> requests -> explicit refresh() against a scripted
v3 agent whose identity (engine ids of 5 / 17 / 32 octets, a second identity), boots/time and reply plan (Report,
Response, dropped) vary, for {no auth, MD5, SHA-1} x {none, DES, AES} x {password, master, localized} x {engine id
given, discovered}.  TraceSession.tla reads the USM header of every successive request: engine id = the one
learned (once) or given, boots/time = those of the most recent accepted message, MAC valid under the key
localised to that engine id, msgData decryptable under the privacy key localised the same way."""
import json, asyncio, itertools, random
from vlib import env, tlc, trace, scripts, apidrv, rawdrv, agent as ag, sesscheck
from vlib.report import Check, confirm_by_replay, timing_event
from vlib.env import ToolError, SEED

ENGINES = {"A5": bytes([0x80, 0, 0x1f, 0x88, 4]), "A17": bytes([0x80, 0, 0x1f, 0x88, 0x80] + list(range(1, 13))),
           "A32": bytes([0x80, 0, 0x1f, 0x88, 5] + list(range(100, 127))), "B": bytes([0x80, 0, 0x1f, 0x88, 0x80, 9, 9, 9, 9])}
CLOCKS = [(0, 0), (1, 5), (2 ** 31 - 1, 2 ** 31 - 1), (7, 2 ** 16), (300, 1)]


def mc_usm(given, steps):
    lines = ["SPECIFICATION Spec", "CONSTANTS", "  EngineGiven = %s" % ("TRUE" if given else "FALSE"), "  MaxSteps = %d" % steps,
             "  Engines <- EnginesDef", "  Clocks <- ClocksDef"]
    lines += ["VIEW View", "INVARIANTS ViewFollowsAgent KeysLocalizedToLearned GivenEngineUsedFromFirstMessage NoRequestBeforeKeys",
              "PROPERTIES EngineLearnedOnce StampFollowsAgent", "CHECK_DEADLOCK FALSE"]
    p = sesscheck.write_cfg("\n".join(lines) + "\n", "MC_Usm_%s.cfg" % given)
    return tlc.run_tlc("MC_Usm.tla", p, workers=8, timeout=1800)


def make_cfg(auth, priv, kt, engine, idx):
    klen = 16 if auth == "md5" else 20
    if auth == "none":
        return rawdrv.Cfg("v3", user="user%d" % idx, engine=engine)
    shared = kt == "shared-password"          # every such user of the run has the SAME password bytes, whatever its digest / cipher
    if shared:
        kt = "password"
    akt, pkt = kt.split("+") if "+" in kt else (kt, kt)      # "password+master": auth key given as password, privacy key as master key
    akm = b"authkey-%d" % idx if akt == "password" else bytes((i * 3 + idx) % 256 for i in range(klen))
    pkm = b"privkey-%d" % idx if pkt == "password" else bytes((i * 5 + idx + 1) % 256 for i in range(klen))
    if shared:
        akm = pkm = b"one-password-for-all"
    return rawdrv.Cfg("v3", user="user%d" % idx, engine=engine, auth=auth, akt=akt, akm=akm, priv=priv, pkt=pkt, pkm=pkm if priv != "none" else b"")


def make_responder(agent_state, cfgref, plan):
    """plan: list of actions per incoming request: 'drop' | ('reply', engine_name, clock_index)"""
    st = {"i": 0}

    def respond(req):
        cfg = cfgref[0]
        i = st["i"]
        st["i"] += 1
        act = plan[i] if i < len(plan) else ("reply", agent_state["engine"], agent_state["clock"])
        if act == "drop":
            return []
        _, ename, ci = act
        agent_state["engine"], agent_state["clock"] = ename, ci
        a = ag.Agent(engine=ENGINES[ename], boots=CLOCKS[ci][0], time=CLOCKS[ci][1])
        if req.broken:
            return []
        has_auth = cfg.auth != "none"
        if req.ptype == "get" and not req.names:
            # probe: discovery (no engine id in the request) -> unauthenticated usmStatsUnknownEngineIDs;
            # otherwise an authenticated usmStatsNotInTimeWindows-style Report carrying the agent's clock
            if not req.engine or not has_auth:
                d = a.report(cfg, req)
            else:
                d = a.report(cfg, req, oid=(1, 3, 6, 1, 6, 3, 15, 1, 1, 2, 0), mac="valid", flag_auth=True, enc="plain", flag_priv=False)
            return [(d, [])]
        vbs = [(bytes(n), ("int", 100 + i)) for n in req.names[:2]]
        return [(a.reply(cfg, req, vbs), [])]
    return respond


CALLS = [["enter", "get", "get"], ["enter", "get", "refresh", "get"], ["get", "get"], ["enter", "get_many", "get", "get"],
         ["enter", "enter", "get", "get"], ["enter", "refresh", "refresh", "get"]]      # retries after a failed discovery / refresh


def plans(rng, n, first_engine):
    """agent plans for up to n requests"""
    out = []
    e = first_engine
    # every request answered, clock changing each time
    out.append([("reply", e, (i + 1) % len(CLOCKS)) for i in range(n)])
    out.append([("reply", e, (2 * i) % len(CLOCKS)) for i in range(n)])
    # one reply lost at each position
    for k in range(n):
        p = [("reply", e, (i + k) % len(CLOCKS)) for i in range(n)]
        p[k] = "drop"
        out.append(p)
    # the agent changes identity at position k
    for k in range(1, n):
        out.append([("reply", e if i < k else "B", (i * 3) % len(CLOCKS)) for i in range(n)])
    return out


def run_sync(rec, cfg, given, calls, plan):
    a = rec.n
    st = {"engine": "A5", "clock": 1}
    holder = {}
    api = apidrv.SyncApi(rec, cfg, lambda req: holder["r"](req), timeout=0.3, engine_given=given)
    holder["r"] = make_responder(st, api.cfgref, plan)
    s = api.session
    for c in calls:
        try:
            api.ctx.walk = False
            if c == "enter":
                s.__enter__()
            elif c == "exit":
                s.__exit__(None, None, None)
            elif c == "pause":
                import time as _t
                _t.sleep(1.25)                      # the session sits idle: what it stamps next is still what the agent said last
            elif c == "refresh":
                s.refresh()
            elif c == "get":
                api.ctx.oids = ["1.3.6.1.2.1.1.5.0"]
                s.get("1.3.6.1.2.1.1.5.0")
            else:
                api.ctx.oids = ["1.3.6.1.2.1.1.5.0", "1.3.6.1.2.1.1.6.0"]
                s.get_many(["1.3.6.1.2.1.1.5.0", "1.3.6.1.2.1.1.6.0"])
        except BaseException:  # noqa - TimeoutError etc.: the caller goes on (retries); everything is in the trace
            pass
    api.close()
    return a, rec.n


async def run_async(rec, cfg, given, calls, plan):
    a = rec.n
    st = {"engine": "A5", "clock": 1}
    holder = {}
    api = await apidrv.AsyncApi.create(rec, cfg, lambda req: holder["r"](req), timeout=0.3, engine_given=given)
    holder["r"] = make_responder(st, api.cfgref, plan)
    s = api.session
    op = "get"
    for c in calls:
        try:
            api.ctx.walk = False
            if c == "enter":
                op = "refresh"
                await s.__aenter__()
            elif c == "exit":
                await s.__aexit__(None, None, None)
            elif c == "pause":
                await asyncio.sleep(1.25)
            elif c == "refresh":
                op = "refresh"
                await s.refresh()
            elif c == "get":
                op = "get"
                api.ctx.oids = ["1.3.6.1.2.1.1.5.0"]
                await s.get("1.3.6.1.2.1.1.5.0")
            else:
                op = "get_many"
                api.ctx.oids = ["1.3.6.1.2.1.1.5.0", "1.3.6.1.2.1.1.6.0"]
                await s.get_many(["1.3.6.1.2.1.1.5.0", "1.3.6.1.2.1.1.6.0"])
        except BaseException as e:  # noqa
            if type(e).__name__ == "TimeoutError":
                apidrv.api_result_event(api.rec2, api.sid, op, e)
    api.close()
    return a, rec.n


# passwords of shapes a key-handling layer might be tempted to interpret (hex / base64 / numbers / blanks / binary / non-ASCII / format
# directives): a password is an opaque octet string
SHAPED_PASSWORDS = [b"0xC0FFEE1234ab", b"0x00", b"0XABCDEF0123456789", b"  padded  ", b"\x00\x01binary\xff\xfe", "\u043f\u0430\u0440\u043e\u043b\u044c".encode(),
                    b"a" * 64, b"12345678", b"QmFzZTY0Kw==", b"{\"json\": 1}", b"%s%n%x", b"0b1010", b"deadbeefdeadbeefdeadbeefdeadbeef"]


def shaped_password_sessions(rec, thorough):
    """sessions (sync and async, engine id given or discovered) whose passwords have such shapes; returns runs [(a, b, info)]"""
    runs = []
    items = []
    for pi, pw in enumerate(SHAPED_PASSWORDS):
        if not thorough and pi % 2 and pi > 4:
            continue
        auth, priv = [("md5", "none"), ("sha1", "aes"), ("md5", "des"), ("sha1", "none")][pi % 4]
        items.append((auth, priv, pw, pi % 2 == 0, 7000 + pi))

    def cfg_of(auth, priv, pw, i):
        return rawdrv.Cfg("v3", user="shaped%d" % i, engine=ENGINES["A17"], auth=auth, akt="password", akm=pw, priv=priv, pkt="password", pkm=pw[::-1] if priv != "none" else b"")
    calls = ["enter", "get", "get"]

    async def go():
        out = []
        for (auth, priv, pw, given, i) in items[0::2]:
            plan = [("reply", "A17", (k + 1) % len(CLOCKS)) for k in range(6)]
            a, b = await run_async(rec, cfg_of(auth, priv, pw, i), given, calls, plan)
            out.append((a, b, dict(kind="async", auth=auth, priv=priv, kt="shaped:%d" % (i - 7000), given=given, engine="A17", calls=calls, plan=plan, idx=i, shaped=True)))
        return out
    runs += asyncio.run(go())
    for (auth, priv, pw, given, i) in items[1::2]:
        plan = [("reply", "A17", (k + 1) % len(CLOCKS)) for k in range(6)]
        a, b = run_sync(rec, cfg_of(auth, priv, pw, i), given, calls, plan)
        runs.append((a, b, dict(kind="sync", auth=auth, priv=priv, kt="shaped:%d" % (i - 7000), given=given, engine="A17", calls=calls, plan=plan, idx=i, shaped=True)))
    return runs


def lost_discovery_histories(rec, users, thorough, base_idx=900):
    """Public-API histories (sync and async) of sessions created WITHOUT an engine id in which discovery datagrams are lost and
    enter / refresh is retried before requests are made.  users: list of (auth, priv, key type).  Returns runs [(a, b, info)];
    info carries api_history=True and is replayable by c13.replay()."""
    hist = []
    for ai, (auth, priv, kt) in enumerate(users):
        for ci, calls in enumerate([["enter", "enter", "get", "get"], ["enter", "refresh", "get"], ["enter", "get", "get"]]):
            nreq = sum(2 if c == "enter" else 1 for c in calls) + 1
            for lost in ([0], [1], [0, 2]):
                plan = [("reply", "A17", (i + 1) % len(CLOCKS)) for i in range(nreq)]
                for k in lost:
                    plan[k] = "drop"
                hist.append((auth, priv, kt, calls, plan, base_idx + ai * 20 + ci * 5 + len(lost) + lost[0]))
        # idle time between a reply and the next request (boots / time in a request are the values of the most recent accepted message -
        # the client does not run a clock of its own), with clocks next to the top of the INTEGER range
        for ci, calls in enumerate([["enter", "get", "pause", "get", "get"]]):
            nreq = 6
            plan = [("reply", "A17", (i + 3) % len(CLOCKS)) for i in range(nreq)]
            hist.append((auth, priv, kt, calls, plan, base_idx + 90 + ai * 2))
            hist.append((auth, priv, kt, calls, plan, base_idx + 91 + ai * 2))
        # the session leaves its context and is used again (entered again, or simply used: the object stays valid): whatever leaving
        # and re-entering do underneath, every later request is still the configured user's
        for ci, calls in enumerate([["enter", "get", "exit", "enter", "get", "get"], ["enter", "get", "exit", "get", "get_many"]]):
            nreq = sum(2 if c == "enter" else 0 if c == "exit" else 1 for c in calls) + 2
            for lost in ([], [0]):
                plan = [("reply", "A17", (i + 2) % len(CLOCKS)) for i in range(nreq)]
                for k in lost:
                    plan[k] = "drop"
                hist.append((auth, priv, kt, calls, plan, base_idx + 60 + ai * 8 + ci * 2 + len(lost)))
                hist.append((auth, priv, kt, calls, plan, base_idx + 61 + ai * 8 + ci * 2 + len(lost)))       # (the other client / engine_id form)
    if not thorough:
        hist = [h for k, h in enumerate(hist) if (k + SEED) % 2 == 0]
    runs = []

    async def hist_async(items):
        out = []
        for (auth, priv, kt, calls, plan, i) in items:
            cfg = make_cfg(auth, priv, kt, ENGINES["A17"], i)
            giv = "empty" if i % 2 else False         # engine_id=b"" or engine_id=None: both mean "not known yet"
            a, b = await run_async(rec, cfg, giv, calls, plan)
            out.append((a, b, dict(kind="async", auth=auth, priv=priv, kt=kt, given=giv, engine="A17", calls=calls, plan=plan, idx=i, api_history=True)))
        return out
    runs += asyncio.run(hist_async(hist[0::2]))
    for (auth, priv, kt, calls, plan, i) in hist[1::2]:
        cfg = make_cfg(auth, priv, kt, ENGINES["A17"], i)
        giv = "empty" if i % 2 else False
        a, b = run_sync(rec, cfg, giv, calls, plan)
        runs.append((a, b, dict(kind="sync", auth=auth, priv=priv, kt=kt, given=giv, engine="A17", calls=calls, plan=plan, idx=i, api_history=True)))
    return runs


def run(tier):
    chk = Check("C13", tier)
    thorough = tier == "thorough"
    rng = random.Random(SEED)
    chk.rule = ("scenarios = client call sequence (enter / get / get_many / refresh) x agent plan (every reply answered with a changing clock, one reply lost at "
                "each position, identity change at each position) x {no auth, MD5, SHA-1} x {none, DES, AES} x key type (incl. auth and privacy keys of different types) x engine id {given, discovered; 5/17/32 octets} "
                "x {sync, async}; distinct = scenario; non-trivial = at least two requests reach the agent")
    for given in (True, False):
        res = mc_usm(given, 6 if not thorough else 8)
        tlc.require_ok(res, "Usm.tla")
        tlc.require_coverage(res, ["Send", "Accept", "Lost", "SetKeys", "AgentChanges"] if not given else ["Send", "Accept", "Lost", "AgentChanges"], "Usm.tla")
        chk.add_tlc(res, "Usm.tla EngineGiven=%s" % given)
    secs = [("none", "none", "password")] + [(a, p, k) for a in ("md5", "sha1") for p in ("none", "des", "aes") for k in ("password", "master", "localized")]
    # auth and privacy keys given in different forms (each is expanded according to its own key type)
    secs += [("md5", "aes", "password+master"), ("sha1", "des", "master+password"), ("md5", "des", "password+localized"),
             ("sha1", "aes", "master+localized"), ("md5", "aes", "localized+password"), ("sha1", "des", "localized+master")]
    rec = trace.Recorder("c13")
    runs = []
    scen = []
    idx = 0
    for si, (auth, priv, kt) in enumerate(secs):
        for given in (True, False, "empty"):          # "empty": engine_id=b"" is passed - no engine id known, just like None
            for ename in ("A5", "A17", "A32"):
                for ci, calls in enumerate(CALLS):
                    if calls[0] != "enter" and given is not True:
                        continue                     # without an engine id the session must be entered first
                    if given == "empty" and (ci + si) % 2:
                        continue
                    nreq = sum(2 if c == "enter" else 1 for c in calls) + 1
                    for pi, plan in enumerate(plans(rng, nreq, ename)):
                        idx += 1
                        if not thorough and (idx + SEED) % 23:
                            continue
                        scen.append((auth, priv, kt, given, ename, calls, plan, idx))
    async def all_async(items):
        out = []
        for (auth, priv, kt, given, ename, calls, plan, i) in items:
            cfg = make_cfg(auth, priv, kt, ENGINES[ename], i)
            a, b = await run_async(rec, cfg, given, calls, plan)
            out.append((a, b, dict(kind="async", auth=auth, priv=priv, kt=kt, given=given, engine=ename, calls=calls, plan=plan, idx=i)))
        return out
    # sessions created back to back, in one thread, with the same password under alternating digests (both orders)
    shared = []
    for k, (auth, priv) in enumerate([("sha1", "none"), ("md5", "none"), ("md5", "aes"), ("sha1", "des"), ("md5", "none"), ("sha1", "none"), ("md5", "des")]):
        calls = ["enter", "get", "get"]
        shared.append((auth, priv, "shared-password", False, "A17", calls, [("reply", "A17", (i + 1) % len(CLOCKS)) for i in range(6)], 5000 + k))
    # idle sessions: more than a second passes between a reply and the next request; the request is stamped with what the agent said
    # last (no clock of the client's own), also when that is the top of the INTEGER range
    for k, (auth, priv, kt, given, ename) in enumerate([("none", "none", "password", False, "A17"), ("md5", "none", "password", True, "A5"),
                                                          ("sha1", "aes", "master", False, "A32"), ("md5", "des", "localized", True, "A17")]):
        calls = ["enter", "get", "pause", "get", "get"]
        plan = [("reply", ename, (i + k + 1) % len(CLOCKS)) for i in range(7)]
        scen.append((auth, priv, kt, given, ename, calls, plan, 6000 + k))
        scen.append((auth, priv, kt, given, ename, calls, plan, 6100 + k))        # (lands in the other client's half)
    half = [s for k, s in enumerate(scen) if k % 2 == 0]
    other = [s for k, s in enumerate(scen) if k % 2 == 1]
    runs += shaped_password_sessions(rec, thorough)
    runs += asyncio.run(all_async(shared))
    for (auth, priv, kt, given, ename, calls, plan, i) in shared:
        cfg = make_cfg(auth, priv, kt, ENGINES[ename], i)
        a, b = run_sync(rec, cfg, given, calls, plan)
        runs.append((a, b, dict(kind="sync", auth=auth, priv=priv, kt=kt, given=given, engine=ename, calls=calls, plan=plan, idx=i)))
    runs += asyncio.run(all_async(half if not thorough else scen))
    for (auth, priv, kt, given, ename, calls, plan, i) in (other if not thorough else scen):
        cfg = make_cfg(auth, priv, kt, ENGINES[ename], i)
        a, b = run_sync(rec, cfg, given, calls, plan)
        runs.append((a, b, dict(kind="sync", auth=auth, priv=priv, kt=kt, given=given, engine=ename, calls=calls, plan=plan, idx=i)))
    rec.close()
    print("  %d scenarios, %d events" % (len(runs), rec.n), flush=True)
    v = trace.validate_parallel("TraceSession.tla", "TraceSession.cfg", rec.events, [(a, b) for a, b, _ in runs], k=14, name="c13")
    for i, r in enumerate(v["results"]):
        chk.add_tlc(r, "TraceSession(c13)#%d" % i)
    chk.traces += len(runs)
    for a, b, info in runs:
        nreq = sum(1 for e in rec.events[a:b] if e["ev"] == "Send" and e.get("wire"))
        chk.case(json.dumps(info, sort_keys=True), nontrivial=nreq >= 2)
    ri = 0
    for idxf in v["fails"]:
        while runs[ri][1] <= idxf:
            ri += 1
        a, b, info = runs[ri]
        ev = rec.events[idxf]
        nth = sum(1 for e in rec.events[a:idxf + 1] if e["ev"] == ev["ev"])
        sig = dict(client=info["kind"], auth=info["auth"], priv=info["priv"], kt=info["kt"], given=info["given"], ev=ev["ev"], op=ev.get("op"), got=ev.get("exc") or "ok")
        chk.violation(sig, "%s auth=%s priv=%s kt=%s engine %s (%s) calls=%s: %s #%d (%s) %s" % (info["kind"], info["auth"], info["priv"], info["kt"], info["engine"],
                      "given" if info["given"] is True else ("discovered, engine_id=b''" if info["given"] == "empty" else "discovered"), info["calls"], ev["ev"], nth, ev.get("op"), ev.get("exc") or ""), dict(info=info, event_index=idxf - a),
                      confirm=(confirm_by_replay(replay, dict(info=info)) if timing_event(ev) else None))
    chk.sample(dict(kind="scenario", info=runs[2][2]))
    return chk.finish()


def replay(path):
    d = json.load(open(path))
    info = d["replay"]["info"]
    rec = trace.Recorder("c13-replay")
    cfg = make_cfg(info["auth"], info["priv"], info["kt"], ENGINES[info["engine"]], info["idx"])
    if info.get("shaped"):
        pw = SHAPED_PASSWORDS[info["idx"] - 7000]
        cfg = rawdrv.Cfg("v3", user="shaped%d" % info["idx"], engine=ENGINES["A17"], auth=info["auth"], akt="password", akm=pw, priv=info["priv"], pkt="password",
                         pkm=pw[::-1] if info["priv"] != "none" else b"")
    plan = [tuple(p) if isinstance(p, list) else p for p in info["plan"]]
    if info["kind"] == "async":
        asyncio.run(run_async(rec, cfg, info["given"], info["calls"], plan))
    else:
        run_sync(rec, cfg, info["given"], info["calls"], plan)
    v = trace.validate("TraceSession.tla", "TraceSession.cfg", rec.close())
    if v["accepted"] and not v["fails"]:
        print("replay: accepted")
        return 0
    print("VIOLATION property=C13 replay=%s" % path)
    return 1
