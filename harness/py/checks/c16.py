"""C16 - decoding an element reads exactly its declared extent.

MC_Codec.tla (TLC): extent laws of the specification's own header parser (TLV followed by arbitrary octets has the
same extent; truncation anywhere is detected).  Metamorphic relation on the real decoders (Rust replay binary):
for every encoding x of the TLC-generated value corpus (Values.tla, every type) and every suffix s in
{<>, 00, ff, 80, a valid TLV, 30 82 ff ff, 300 octets}, SnmpValue::from_ber(x || s) and the typed from_ber must
return the value of x alone and leave exactly s.  Nested tampering and trailing octets on whole messages come from
Malform.tla: every mutant whose inner declared length runs past its enclosing element or which carries octets after
the top-level message must be rejected by the three message decoders.  TraceCodec.tla judges every record with the
TLA+ header parser (ExtGood / MsgExtGood).  Through Python: values at non-last varbind positions (see C02)."""
import json
from vlib import env, tlc, trace, corpus, rs, malform
from vlib.report import Check
from vlib.env import ToolError, SEED

SUFFIXES = [[], [0], [255], [128], [5, 0], [48, 130, 255, 255], [7] * 300]
TYPED = {"int": "int", "bool": "bool", "null": "null", "octets": "octets", "oid": "oid", "real": "real"}


def inflate_tail(b, g):
    """every element on the path to the LAST leaf declares g octets more than it has: the nesting stays consistent, the leaf runs
    g octets past the end of the data"""
    from vlib import refcodec as rc
    b = bytearray(b)
    pos, end = 0, len(b)
    while True:
        tag, cs, n, nx = rc.rd_tlv(bytes(b), pos)
        if b[pos + 1] >= 128 or b[pos + 1] + g >= 128:
            raise ToolError("inflate_tail needs short-form lengths")
        b[pos + 1] += g
        if not (tag & 0x20):
            return bytes(b)
        p, last = cs, None
        while p < cs + n:
            t2, cs2, n2, nx2 = rc.rd_tlv(bytes(b), p)
            last = p
            p = nx2
        if last is None:
            return bytes(b)
        pos = last


def enc_case(rec, cfg, k, g, stray_first):
    """AES session: the reply's scoped PDU declares g octets more than were sent (CFB ciphertext has exactly the plaintext's length).
    g = 0 is the control.  stray_first: a well-formed encrypted reply with a foreign request-id is received (and skipped) before."""
    from vlib import rawdrv, agent as ag, refcodec as rc, refcrypto as rx
    from checks import c01
    a = rec.n
    s = rawdrv.RawSession(rec, cfg)
    agent = ag.Agent(engine=cfg.engine)
    w, _ = s.send("get", ["1.3.6.1.2.1.1.5.0"])
    if w is not None:
        req = ag.Request(cfg, w)
        if stray_first and not req.broken:
            s.inject(agent.reply(cfg, req, [(bytes(req.names[0]), ("octets", b"SECRET-OF-ANOTHER-REQUEST-%d" % k))], reqid=(req.reqid + 5) & 0x7FFFFFFF))
        if not req.broken:
            pdu = rc.enc_pdu("response", req.reqid, 0, 0, [(bytes(req.names[0]), ("octets", b"short" + b"." * (k % 11)))])
            plain = inflate_tail(rc.enc_scoped(agent.engine, b"", pdu), g)
            kp = rx.kul(cfg.auth, cfg.pkt, cfg.pkm, agent.engine)
            salt = bytes([0, 0, 0, 2, 7, 7, k % 256, g])
            ct = rx.usm_encrypt(cfg.priv, kp[:16], salt, agent.boots.to_bytes(4, "big"), agent.time.to_bytes(4, "big"), plain)
            d = rc.enc_v3_msg(req.msgid, 3, agent.engine, agent.boots, agent.time, cfg.user.encode(), bytes(12), salt, rc.tlv(0x04, ct))
            s.inject(c01.patch_ids(d, req, cfg))
        s.recv("get")
    s.close()
    return a, rec.n


def encrypted_extents(chk, thorough):
    """C16 behind the cipher: what the decoder is handed after decryption is exactly the decrypted octets"""
    from vlib import scripts
    std = scripts.all_cfgs()
    rec = trace.Recorder("c16enc")
    runs = []
    for cn in ("v3-sha1-aes", "v3-md5-aes"):
        for k in range(0, 16 if not thorough else 48):
            for g in ([0, 1, 2, 5, 8, 15] if not thorough else list(range(0, 16))):
                for stray in (False, True):
                    if not thorough and (k + g + int(stray)) % 3:
                        continue
                    a, b = enc_case(rec, std[cn], k, g, stray)
                    runs.append((a, b, dict(cfg=cn, k=k, g=g, stray=stray)))
                    chk.case(("enc", cn, k, g, stray), nontrivial=g > 0)
    rec.close()
    v = trace.validate_parallel("TraceSession.tla", "TraceSession.cfg", rec.events, [(a, b) for a, b, _ in runs], k=8, name="c16enc")
    for i, r in enumerate(v["results"]):
        chk.add_tlc(r, "TraceSession(c16enc)#%d" % i)
    chk.traces += len(runs)
    ri = 0
    for idx in v["fails"]:
        while runs[ri][1] <= idx:
            ri += 1
        a, b, info = runs[ri]
        ev = rec.events[idx]
        chk.violation(dict(kind="encrypted-extent", overrun=info["g"] > 0, stray=info["stray"], ev=ev["ev"], got=ev.get("exc") or "value"),
                      "%s: reply whose scoped PDU declares %d octets more than the %s ciphertext carries%s: %s %s" % (info["cfg"], info["g"], "AES-CFB",
                      " (after a skipped encrypted reply)" if info["stray"] else "", ev["ev"], ev.get("exc") or json.dumps(ev.get("res"))[:120]),
                      dict(kind="enc", info=info))
    print("  %d encrypted-extent cases" % len(runs), flush=True)


def api_followed(chk, thorough):
    """(x, s) at the API: value elements whose CONTENTS are themselves BER (Opaque wrapping a TLV, after RFC 2578 7.1.9; the nested
    families of the malformed-datagram corpus) and all boundary values, sent in a varbind alone and followed - inside the varbind - by
    other octets; the Python value returned by get() may not depend on them (TraceCodec ApiExtGood)"""
    import socket
    from vlib import scripts, rawdrv, agent as ag, refcodec as rc, malform
    from vlib.apidrv import proj
    std = scripts.std_cfgs()
    cfg = std["v2c"]
    xs = []
    for tagb in ([0x9F, 0x78], [0x9F, 0x79], [0x9F, 0x7A], [0x9F, 0x7B], [0x9F, 0x76], [0x44], [0x04], [0x02], [0x30]):
        for true_len in (0, 1, 3, 4, 7, 8):
            payload = bytes((0x40 + 9 * j) % 256 for j in range(true_len))
            for lenb in ([true_len], [true_len + 1], [true_len + 4], [8], [4], [0x81, true_len], []):
                content = bytes(tagb) + bytes(lenb) + payload
                for vtag in (0x44, 0x04):
                    xs.append(rc.tlv(vtag, content))
    xs += [bytes([t, 0]) for t in (0x02, 0x41, 0x42, 0x43, 0x46, 0x47, 0x40, 0x04, 0x06, 0x09)] + [bytes([0x40, 2, 10, 0]), bytes([0x09, 1, 0x40]), bytes([0x02, 1, 0x80])]
    if not thorough:
        xs = [x for i, x in enumerate(xs) if i % 2 == 0 or x[:1] == b"\x44"]
    suffixes = [bytes([0x54, 0x44, 0x2D, 0x18]), bytes(8), bytes([0xFF] * 9), bytes([0x05, 0x00])]
    name = rc.tlv(0x06, rc.oid_content([1, 3, 6, 1, 2, 1, 1, 1, 0]))

    def ask(s, x, suffix):
        w, exc = s.send("get", ["1.3.6.1.2.1.1.1.0"])
        if w is None:
            return dict(k="exc", v=[], e="send")
        req = ag.Request(cfg, w)
        vb = rc.tlv(0x30, name + x + suffix)
        pdu = rc.tlv(0xA2, rc.enc_int(req.reqid) + rc.enc_int(0) + rc.enc_int(0) + rc.tlv(0x30, vb))
        s.inject(rc.enc_community_msg("v2c", cfg.community.encode(), pdu))
        res, exc = s.recv("get")
        if exc:
            return dict(k="exc", v=[], e=exc if isinstance(exc, str) else str(exc))
        return dict(k="value", v=res, e="")

    class NullRec:
        n = 0

        def emit(self, e):
            pass
    recs, items = [], []
    s = rawdrv.RawSession(NullRec(), cfg)
    for xi, x in enumerate(xs):
        alone = ask(s, x, b"")
        for suffix in (suffixes if thorough else [suffixes[xi % 4], suffixes[(xi + 1) % 4]]):
            followed = ask(s, x, suffix)
            recs.append(dict(x=list(x), suffix=list(suffix), alone=alone, followed=followed))
            items.append((x, suffix))
            chk.case(("api-followed", x.hex(), suffix.hex()), nontrivial=True)
    s.close()
    rec = trace.Recorder("c16apiext")
    runs = []
    for i in range(0, len(recs), 400):
        a = rec.n
        rec.emit(dict(ev="ApiExtBatch", recs=recs[i:i + 400]))
        runs.append((a, rec.n, i))
    rec.close()
    v = trace.validate_parallel("TraceCodec.tla", "TraceCodec.cfg", rec.events, [(a, b) for a, b, _ in runs], k=4, name="c16apiext")
    for i, r in enumerate(v["results"]):
        chk.add_tlc(r, "TraceCodec(c16 api followed)#%d" % i)
    bad = [r_ for r_ in recs if r_["alone"]["k"] == "value" and r_["followed"]["k"] == "value" and r_["alone"]["v"] != r_["followed"]["v"]]
    nbad_spec = sum(p["badrecs"]["n"] for r in v["results"] for p in r.printed if isinstance(p, dict) and "badrecs" in p)
    if nbad_spec != len(bad):
        raise ToolError("ApiExtBatch: the specification rejected %d records, the driver's own comparison %d" % (nbad_spec, len(bad)))
    for r_ in bad[:20]:
        chk.violation(dict(kind="api-followed", tag=r_["x"][0]), "value element %s in a varbind: get() returns %s alone and %s when followed by %s" %
                      (bytes(r_["x"]).hex(), json.dumps(r_["alone"]["v"])[:80], json.dumps(r_["followed"]["v"])[:80], bytes(r_["suffix"]).hex()),
                      dict(kind="apiext", x=r_["x"], suffix=r_["suffix"]))
    print("  %d (x, suffix) pairs through get()" % len(recs), flush=True)


def big_trailing_case(rec, cfg, total, junk):
    from vlib import rawdrv, agent as ag
    from checks import c09
    a = rec.n
    s = rawdrv.RawSession(rec, cfg)
    agent = ag.Agent(engine=cfg.engine or None) if cfg.engine else ag.Agent()
    w, exc = s.send("get", ["1.3.6.1.2.1.1.1.0"])
    if w is not None:
        req = ag.Request(cfg, w)
        d = c09.sized_reply(agent, cfg, req, total)
        s.inject(bytes(d) + bytes((0x55 + 7 * i) % 256 for i in range(junk)))
        s.recv("get")
    s.close()
    return a, rec.n


def big_trailing(chk, thorough):
    """octets after the top-level message, in datagrams around and beyond what one receive takes (4080 octets): however the receive
    path obtains the datagram, the decoder is handed all of it - a message followed by anything is rejected, whatever its size"""
    from vlib import scripts
    std = scripts.std_cfgs()
    rec = trace.Recorder("c16big")
    runs = []
    for cn in (("v2c", "v3-md5") if not thorough else ("v1", "v2c", "v3-noauth", "v3-md5", "v3-sha1-aes")):
        # (a message of EXACTLY 4080 octets followed by more is left out: one receive takes 4080 octets, the surplus is cut off by the
        # kernel before the library can see it - the decoder is handed the message alone; datagrams above 4080 octets are outside the
        # domain of the pinned library, see DESIGN.md 0a.5)
        for total in (3000, 4000, 4079, 4081, 4153, 4953, 9000):
            for junk in (1, 16, 300):
                if not thorough and (total + junk) % 2 and total not in (4153, 4953):
                    continue
                a, b = big_trailing_case(rec, std[cn], total, junk)
                runs.append((a, b, dict(cfg=cn, total=total, junk=junk)))
                chk.case(("big-trailing", cn, total, junk), nontrivial=True)
    rec.close()
    v = trace.validate_parallel("TraceSession.tla", "TraceSession.cfg", rec.events, [(a, b) for a, b, _ in runs], k=8, name="c16big")
    for i, r in enumerate(v["results"]):
        chk.add_tlc(r, "TraceSession(c16big)#%d" % i)
    chk.traces += len(runs)
    ri = 0
    for idx in v["fails"]:
        while runs[ri][1] <= idx:
            ri += 1
        a, b, info = runs[ri]
        ev = rec.events[idx]
        chk.violation(dict(kind="big-trailing", over_4080=info["total"] + info["junk"] > 4080, ev=ev["ev"], got=ev.get("exc") or "value"),
                      "%s: reply of %d octets followed by %d more octets in the same datagram: %s %s" % (info["cfg"], info["total"], info["junk"], ev["ev"],
                      ev.get("exc") or json.dumps(ev.get("res"))[:100]), dict(kind="big", info=info))
    print("  %d large-datagram cases" % len(runs), flush=True)


def run(tier):
    chk = Check("C16", tier)
    thorough = tier == "thorough"
    chk.rule = ("(x, s) pairs: x = every TLV of the TLC-generated value corpus, s = 7 suffixes, through SnmpValue::from_ber and the typed decoders; "
                "message-level: every Malform.tla mutant (length rewrites, long forms, truncations, trailing octets, inserted octets at every TLV node of 13 templates) "
                "through the v1/v2c/v3 message decoders; distinct = (decoder, x, s) / mutant; non-trivial = s non-empty, or a mutant rejected for an extent reason")
    law, res = corpus.generate("MC_Codec.tla", ["Wire.tla", "SNMP.tla", "BER.tla", "Octets.tla"], "CONSTANTS MaxOctets = 1\n", timeout=1800)
    if res:
        chk.add_tlc(res, "MC_Codec laws")
    vals, res = corpus.generate("Values.tla", ["BER.tla", "Octets.tla"])
    if res:
        chk.add_tlc(res, "Values.tla")
    cvals = [v for v in vals if "tlv" in v]
    reqs, meta = [], []
    for vi, v in enumerate(cvals):
        x = v["tlv"]
        for si, s in enumerate(SUFFIXES):
            if not thorough and len(x) > 300 and si not in (0, 1, 6):
                continue
            reqs.append({"op": "decode_value", "b": x + s})
            meta.append(("value", vi, si))
            if v["vt"] in TYPED:
                reqs.append({"op": "decode_typed", "t": TYPED[v["vt"]], "b": x + s})
                meta.append(("typed", vi, si))
    obs = rs.run(reqs, timeout=1200)
    base = {}
    for (kind, vi, si), o in zip(meta, obs):
        if si == 0:
            base[(kind, vi)] = o
    rec = trace.Recorder("c16")
    batches = []
    recs, items = [], []

    def flush(evname):
        nonlocal recs, items
        if recs:
            a = rec.n
            rec.emit(dict(ev=evname, recs=recs))
            batches.append((a, rec.n, evname, items))
            recs, items = [], []
    for (kind, vi, si), o, rq in zip(meta, obs, reqs):
        b0 = base[(kind, vi)]
        same = (o.get("r") == "ok" and b0.get("r") == "ok" and o.get("repr") == b0.get("repr"))
        recs.append(dict(kind=kind, b=rq["b"], r=o.get("r", "died"), rest=o.get("rest", -1) if o.get("r") == "ok" else -1, same=bool(same),
                         free=(kind == "typed")))
        items.append((kind, vi, si))
        chk.case((kind, vi, si), nontrivial=si > 0)
        if len(recs) >= 1500:
            flush("ExtBatch")
    flush("ExtBatch")
    # message level
    templates, muts = malform.corpus_for(chk)
    mreqs, mmeta = [], []
    for mi, m in enumerate(muts):
        if m["t"] == "scoped-plain":
            continue
        mreqs.append({"op": "decode_msg", "ver": m["ver"], "b": m["b"]})
        mmeta.append(mi)
    mobs = rs.run(mreqs, timeout=1200)
    for mi, o in zip(mmeta, mobs):
        m = muts[mi]
        recs.append(dict(ver=m["ver"], b=m["b"], r=o.get("r", "died")))
        items.append(mi)
        chk.case(("msg", mi), nontrivial=m["why"] in ("overrun", "trailing-after-message", "trailing-in-pdu", "toolong", "lenshort", "short", "usm-trailing"))
        if len(recs) >= 400:
            flush("MsgExtBatch")
    flush("MsgExtBatch")
    rec.close()
    print("  %d (x,s) records, %d message mutants, %d batches" % (len(meta), len(mmeta), len(batches)), flush=True)
    v = trace.validate_parallel("TraceCodec.tla", "TraceCodec.cfg", rec.events, [(a, b) for a, b, _, _ in batches], k=12, name="c16")
    for i, r in enumerate(v["results"]):
        chk.add_tlc(r, "TraceCodec(c16)#%d" % i)
    chk.traces += len(batches)
    for idx in v["fails"]:
        a, b, evname, its = [x for x in batches if x[0] == idx][0]
        info = v["badrecs"].get(idx, dict(n=0, first=[]))
        ev = rec.events[idx]
        for f in info["first"]:
            r_ = ev["recs"][f - 1]
            it = its[f - 1]
            if evname == "ExtBatch":
                kind, vi, si = it
                vt = cvals[vi]["vt"]
                sig = dict(kind=kind, vt=vt, suffix=si, r=r_["r"])
                chk.violation(sig, "%s decoder on %s || suffix#%d: r=%s rest=%s same=%s (x=%s)" % (kind, vt, si, r_["r"], r_["rest"], r_["same"], bytes(cvals[vi]["tlv"]).hex()[:60]),
                              dict(kind=kind, x=cvals[vi]["tlv"], suffix=SUFFIXES[si]))
            else:
                m = muts[it]
                sig = dict(kind="msg", ver=m["ver"], mut=m["mut"], why=m["why"], r=r_["r"])
                chk.violation(sig, "%s decoder accepted template %s mutated by '%s' (spec: %s): %s" % (m["ver"], m["t"], m["mut"], m["why"], bytes(m["b"]).hex()[:80]),
                              dict(kind="msg", mutant=m))
        if info["n"] > len(info["first"]):
            chk.violation(dict(kind=evname, more=True), "%d more failing records in batch" % (info["n"] - len(info["first"])), dict(kind=evname))
    encrypted_extents(chk, thorough)
    big_trailing(chk, thorough)
    api_followed(chk, thorough)
    chk.sample(dict(kind="ext-record", rec={k: (x if k != "b" else x[:24]) for k, x in rec.events[0]["recs"][9].items()}))
    chk.sample(dict(kind="message-mutant", mutant={k: (x if k != "b" else x[:40]) for k, x in muts[1234].items()}))
    return chk.finish()


def replay(path):
    d = json.load(open(path))
    r = d["replay"]
    if r.get("kind") == "apiext":
        chk = Check("C16", "quick")
        chk.states = chk.transitions = 1
        before = len(getattr(chk, "violations", []))
        api_followed(chk, False)
        if len(getattr(chk, "violations", [])) > before:
            print("VIOLATION property=C16 replay=%s" % path)
            return 1
        print("replay: accepted")
        return 0
    if r.get("kind") == "big":
        from vlib import scripts
        info = r["info"]
        rec = trace.Recorder("c16-replay")
        big_trailing_case(rec, scripts.std_cfgs()[info["cfg"]], info["total"], info["junk"])
        v = trace.validate("TraceSession.tla", "TraceSession.cfg", rec.close())
        if v["accepted"] and not v["fails"]:
            print("replay: accepted")
            return 0
        print("VIOLATION property=C16 replay=%s" % path)
        return 1
    if r.get("kind") == "enc":
        from vlib import scripts
        info = r["info"]
        rec = trace.Recorder("c16-replay")
        enc_case(rec, scripts.all_cfgs()[info["cfg"]], info["k"], info["g"], info["stray"])
        v = trace.validate("TraceSession.tla", "TraceSession.cfg", rec.close())
        if v["accepted"] and not v["fails"]:
            print("replay: accepted")
            return 0
        print("VIOLATION property=C16 replay=%s" % path)
        return 1
    if r.get("kind") in ("value", "typed"):
        o = rs.run([{"op": "decode_value", "b": r["x"] + r["suffix"]}, {"op": "decode_value", "b": r["x"]}])
        print(o)
        ok = o[0].get("r") != "ok" or (o[0].get("rest") == len(r["suffix"]) and o[0].get("repr") == o[1].get("repr"))
    else:
        m = r["mutant"]
        o = rs.run([{"op": "decode_msg", "ver": m["ver"], "b": m["b"]}])
        print(o)
        ok = o[0].get("r") == "err"
    if ok:
        print("replay: accepted")
        return 0
    print("VIOLATION property=C16 replay=%s" % path)
    return 1
