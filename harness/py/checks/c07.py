"""C07 - get / get_many results and SNMP exceptions map as documented.

Replies.tla (TLC) enumerates the complete table of replies with 0..3 varbinds over {int, octets, NULL,
noSuchObject, noSuchInstance, endOfMibView} x two names (duplicates included) x PDU type {Response, Report,
request echoed}, checks the required mapping for totality/shape at design level, and prints the table.  Every
entry is replayed through get and get_many on real sockets (v1, v2c, v3) and the recorded trace is judged by
TraceSession.tla (Wire!GetResult / GetManyResult / DictMatches on the decoded reply octets).  A sample of the table goes
through the public API as well (sync and async SnmpSession.get / get_many against a scripted agent), so that the Python
layer of the mapping is judged by the same specification."""
import json
from vlib import env, tlc, trace, corpus, rawdrv, agent as ag, refcodec as rc, scripts, apiscripts
from vlib.report import Check, confirm_by_replay, timing_event
from vlib.env import ToolError, SEED
from checks.c02 import one_case

NAMES = {"a": [1, 3, 6, 1, 4, 1, 9999, 1, 0], "b": [1, 3, 6, 1, 4, 1, 9999, 2, 0]}
VAL = {"int": ("int", 77), "octets": ("octets", b"xyz"), "null": ("null",), "noSuchObject": ("noSuchObject",),
       "noSuchInstance": ("noSuchInstance",), "endOfMibView": ("endOfMibView",)}
PTYPE = {2: "response", 8: "report", 0: "get"}


def build(entry):
    return [(NAMES[v["name"]], VAL[v["kind"]]) for v in entry["vbs"]], PTYPE[entry["ptype"]]


def case(rec, cfg, agent, op, entry, sid=1, variant=0, es=0, rstyle=0):
    """rstyle > 0 (v3 Reports): the session first completes an ordinary exchange with an agent at boots 3 / time 5000, then the judged
    request is answered by a Report as agents send them when they could not authenticate the request: no MAC, and a clock that is zero
    (1), behind within the same boots (2) or of an earlier boots (3).  The mapping of the reply may not depend on that history."""
    first = rec.n
    s = rawdrv.RawSession(rec, cfg, sid=sid)
    if rstyle:
        w0, _ = s.send("get", ["1.3.6.1.4.1.9999.1.0"])
        if w0 is not None:
            r0 = ag.Request(cfg, w0)
            s.inject(agent.reply(cfg, r0, [(NAMES["a"], ("int", 1))], boots=3, time=5000))
            s.recv("get")
    if op == "get":
        w, exc = s.send("get", ["1.3.6.1.4.1.9999.1.0"])
    else:
        w, exc = s.send("get_many", ["1.3.6.1.4.1.9999.1.0", "1.3.6.1.4.1.9999.2.0"])
    if w is not None:
        req = ag.Request(cfg, w)
        vbs, ptype = build(entry)
        if ptype == "get":
            vbs = [(n, ("null",)) for n, _ in vbs]
        if ptype == "report" and cfg.ver == "v3":
            # an agent that rejects a message before reading the scoped PDU cannot echo the request-id (RFC 3412 7.1):
            # only the msgID ties such a Report to the request
            rid = [req.reqid, 0, 2 ** 31 - 1, (req.reqid + 1) & 0x7FFFFFFF][variant % 4]
            if rstyle:
                bt = {1: (0, 0), 2: (3, 4000), 3: (2, 9000), 4: (2 ** 31 - 1, 2 ** 31 - 1), 5: (2 ** 31 - 1, 0), 6: (1, 2 ** 31 - 1)}[rstyle]
                d = agent.reply(cfg, req, vbs, ptype="report", reqid=rid, mac="absent", enc="plain", flag_auth=False, flag_priv=False, boots=bt[0], time=bt[1])
            else:
                d = agent.reply(cfg, req, vbs, ptype="report", reqid=rid)
        else:
            # the statement speaks of the varbinds of the matching reply, whatever error-status / error-index it carries
            ckw = {}
            if rstyle and cfg.ver == "v3":
                bt = {4: (2 ** 31 - 1, 2 ** 31 - 1), 5: (2 ** 31 - 1, 0), 6: (1, 2 ** 31 - 1)}.get(rstyle)
                if bt:
                    ckw = dict(boots=bt[0], time=bt[1])            # the agent's clock at the top of the INTEGER (0..2147483647) range
            d = agent.reply(cfg, req, vbs, ptype=ptype, es=es, ei=(1 if es and vbs else 0), **ckw)
        s.inject(d)
        s.recv(op)
    s.close()
    return first, rec.n


def api_answer(agent, entry, variant):
    def answer(cfg, req):
        vbs, ptype = build(entry)
        if ptype == "get":
            vbs = [(n, ("null",)) for n, _ in vbs]
        if ptype == "report" and cfg.ver == "v3":
            rid = [req.reqid, 0, 2 ** 31 - 1, (req.reqid + 1) & 0x7FFFFFFF][variant % 4]
            return [agent.reply(cfg, req, vbs, ptype="report", reqid=rid)]
        return [agent.reply(cfg, req, vbs, ptype=ptype)]
    return answer


def api_items(entries, thorough):
    """a sample of the table through the PUBLIC API (sync and async SnmpSession.get / get_many): the Python layer is part of the mapping"""
    std = scripts.std_cfgs()
    agent = ag.Agent()
    items = []
    step = 47 if not thorough else 9
    for ci, cn in enumerate(["v2c", "v1", "v3-md5"]):
        for ei, e in enumerate(entries):
            small = len(e["vbs"]) <= 1                # the replies a real agent sends to a get: all of them, through both clients
            if not small and (ei + ci * 7 + SEED) % step:
                continue
            if e["ptype"] == 0 and (small and cn != "v2c" or not small and (ei // step) % 6):
                continue                             # echoed requests are skipped by the client: each costs one timeout, keep a few
            for oi, op in enumerate(("get", "get_many")):
                clients = ["sync", "async"] if small and (cn == "v2c" or thorough) else [["sync", "async"][(ei // step + oi + ci + ei) % 2]]
                for client in clients:
                    # get_many asks for both names, or for the first only: the dict holds the RETURNED varbinds, asked for or not
                    oids = ["1.3.6.1.4.1.9999.1.0"] if (op == "get" or (ei + len(items)) % 2) else ["1.3.6.1.4.1.9999.1.0", "1.3.6.1.4.1.9999.2.0"]
                    items.append((client, std[cn], op, oids, api_answer(agent, e, ei), dict(cfg=cn, op=op, entry=e, api=client, variant=ei, oids=oids)))
    return items


def run(tier):
    chk = Check("C07", tier)
    thorough = tier == "thorough"
    chk.rule = ("the complete TLC-generated reply table (0..3 varbinds x 6 value kinds x 2 names x {Response, Report, request}) through "
                "get and get_many on v1/v2c/v3 sockets; distinct = (config, op, table entry); non-trivial = Response with >= 1 varbind or a Report")
    table, res = corpus.generate("Replies.tla", ["Wire.tla", "SNMP.tla", "BER.tla", "Octets.tla"], "CONSTANTS MaxVb = 3\n")
    if res:
        chk.add_tlc(res, "Replies.tla")
    entries = [t for t in table if "vbs" in t]
    if len(entries) < 5000:
        raise ToolError("reply table incomplete: %d" % len(entries))
    std = scripts.std_cfgs()
    carriers = ["v2c", "v1", "v3-noauth", "v3-md5", "v3-sha1-aes"] if not thorough else list(std)
    rec = trace.Recorder("c07")
    agent = ag.Agent()
    runs = []
    for ci, cn in enumerate(carriers):
        for ei, e in enumerate(entries):
            if not thorough and cn != "v2c" and (ei + ci + SEED) % 7:
                continue
            for op in ("get", "get_many"):
                a, b = case(rec, std[cn], agent, op, e, variant=ei)
                runs.append((a, b, dict(cfg=cn, op=op, entry=e)))
                chk.case((cn, op, json.dumps(e, sort_keys=True)), nontrivial=(e["ptype"] != 0 and (len(e["vbs"]) > 0 or e["ptype"] == 8)))
                if std[cn].ver == "v3" and e["ptype"] == 2 and len(e["vbs"]) <= 1:
                    rstyle = 4 + (ei + ci) % 3
                    a, b = case(rec, std[cn], agent, op, e, variant=ei, rstyle=rstyle)
                    runs.append((a, b, dict(cfg=cn, op=op, entry=e, rstyle=rstyle, variant=ei)))
                    chk.case((cn, op, "rstyle", rstyle, json.dumps(e, sort_keys=True)), nontrivial=True)
                if e["ptype"] == 8 and std[cn].ver == "v3" and (len(e["vbs"]) <= 1 or (ei + ci) % 3 == 0):
                    rstyle = 1 + (ei + ci) % 6
                    a, b = case(rec, std[cn], agent, op, e, variant=ei, rstyle=rstyle)
                    runs.append((a, b, dict(cfg=cn, op=op, entry=e, rstyle=rstyle, variant=ei)))
                    chk.case((cn, op, "rstyle", rstyle, json.dumps(e, sort_keys=True)), nontrivial=True)
                if e["ptype"] == 2 and (len(e["vbs"]) <= 1 or (ei + ci) % 5 == 0):
                    es = [2, 5, 1, 3, 18][(ei + ci) % 5]            # noSuchName, genErr, tooBig, badValue, inconsistentName
                    a, b = case(rec, std[cn], agent, op, e, variant=ei, es=es)
                    runs.append((a, b, dict(cfg=cn, op=op, entry=e, es=es)))
                    chk.case((cn, op, es, json.dumps(e, sort_keys=True)))
    nraw = len(runs)
    items = api_items(entries, thorough)
    runs += apiscripts.exchanges(rec, items)
    for a, b, info in runs[nraw:]:
        chk.case(("api", info["api"], info["cfg"], info["op"], json.dumps(info["entry"], sort_keys=True)), nontrivial=info["entry"]["ptype"] != 0)
    rec.close()
    print("  %d cases (%d through the sync/async API), %d events" % (len(runs), len(runs) - nraw, rec.n), flush=True)
    v = trace.validate_parallel("TraceSession.tla", "TraceSession.cfg", rec.events, [(a, b) for a, b, _ in runs], k=12, name="c07")
    for i, r in enumerate(v["results"]):
        chk.add_tlc(r, "TraceSession(c07)#%d" % i)
    chk.traces += len(runs)
    ri = 0
    for idx in v["fails"]:
        while ri < len(runs) and runs[ri][1] <= idx:
            ri += 1
        a, b, info = runs[ri]
        ev = rec.events[idx]
        e = info["entry"]
        sig = dict(op=info["op"] if "api" not in info else info["api"] + "." + info["op"], ver=std[info["cfg"]].ver, ptype=PTYPE[e["ptype"]], nvb=len(e["vbs"]),
                   kinds="+".join(sorted({x["kind"] for x in e["vbs"]})), expected=e["get"] if info["op"] == "get" else e["many"],
                   got=ev.get("exc") or ev.get("res", {}).get("t"))
        if info.get("es"):
            sig["error_status"] = True
        chk.violation(sig, "%s on %s reply %s%s: expected %s got %s" % (info["op"], info["cfg"], json.dumps(e["vbs"]), (" with error-status %d" % info["es"]) if info.get("es") else "", sig["expected"], sig["got"]),
                      dict(info=info, events=rec.events[a:idx + 1]), confirm=(confirm_by_replay(replay, dict(info=info)) if ("api" in info and timing_event(ev)) else None))
    chk.sample(dict(kind="table-entry", entry=entries[777]))
    chk.sample(dict(kind="events", events=rec.events[runs[9][0]:runs[9][1]][1:4]))
    # the table itself is part of the model-checking evidence: TLC evaluated the mapping assumptions over all entries
    chk.extra["table_entries"] = len(entries)
    return chk.finish()


def replay(path):
    d = json.load(open(path))
    info = d["replay"]["info"]
    rec = trace.Recorder("c07-replay")
    if "api" in info:
        oids = info.get("oids") or (["1.3.6.1.4.1.9999.1.0"] if info["op"] == "get" else ["1.3.6.1.4.1.9999.1.0", "1.3.6.1.4.1.9999.2.0"])
        apiscripts.exchanges(rec, [(info["api"], scripts.std_cfgs()[info["cfg"]], info["op"], oids, api_answer(ag.Agent(), info["entry"], info.get("variant", 0)), info)])
    else:
        a, b = case(rec, scripts.std_cfgs()[info["cfg"]], ag.Agent(), info["op"], info["entry"], es=info.get("es", 0), rstyle=info.get("rstyle", 0), variant=info.get("variant", 0))
    v = trace.validate("TraceSession.tla", "TraceSession.cfg", rec.close())
    if v["accepted"] and not v["fails"]:
        print("replay: accepted")
        return 0
    print("VIOLATION property=C07 replay=%s" % path)
    return 1
