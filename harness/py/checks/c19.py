"""C19 - the rate limiter never lets the request rate exceed rps.

Decided by spec/Policer.tla (TLC: all phase offsets x gaps, window property on a sliding history),
Policer_apa.tla (Apalache: inductive invariant for symbolic D and unbounded times), bound to the code by
  (a) spec->impl: every transition of the exported state graph replayed on a real RPSPolicer
      (get_timeout, and wait_sync()/wait() under a virtual clock), reached by a shortest path;
  (b) impl->spec: seeded random call sequences recorded from the real RPSPolicer and validated by
      TracePolicer.tla (delay <= D, window property for k <= 8 at every step).
"""
import os, random, json, asyncio, sys
from vlib import env, tlc, graph, trace
from vlib.report import Check
from vlib.env import ToolError, SEED

BASE = 10 ** 18 + 12345  # huge absolute clock: exposes float arithmetic in the implementation


def _cfg(text, name):
    d = env.scratch("cfg")
    p = os.path.join(d, name)
    open(p, "w").write(text)
    return p


class Refused(Exception):
    """the constructor refuses this rate as too high for it (the statement allows refusing unrepresentably high rates): the runs with
    this interval are skipped - the tiny intervals only serve to exhaust the phase offsets, realistic ones are always run"""


def _mk(D):
    from gufo.snmp.policer import RPSPolicer
    # rps such that int(1e9 / rps) == D exactly
    try:
        p = RPSPolicer(1e9 / D)
    except ValueError:
        raise Refused(D)
    if p._delta != D:
        # float division may be off by one for some D; search neighbours
        for eps in (1e-7, -1e-7, 1e-6, -1e-6):
            try:
                q = RPSPolicer(1e9 / D * (1 + eps * 1e-3))
            except ValueError:
                continue
            if q._delta == D:
                return q
        # the limiter works with another interval than the configured rate gives: not a tool problem - the runs are judged against
        # the CONFIGURED interval D (events carry D), so a shorter real interval shows as windows that are too short
        return p
    return p


class VClock:
    """Virtual clock patched into gufo.snmp.policer (perf_counter_ns, sleep, asyncio.sleep)."""

    def __init__(self, now):
        self.now = now
        self.slept = []

    def perf_counter_ns(self):
        return self.now

    def sleep(self, s):
        ns = round(s * 1e9)
        self.slept.append(ns)
        self.now += ns

    async def asleep(self, s):
        self.sleep(s)


def _apply(pol, mode, state, t, clock):
    """Apply transition t to the real policer. state: dict(rel=absolute release time, prev=abs _prev or None).
    Returns observed (delay, adv)."""
    import gufo.snmp.policer as P
    ts = state["rel"] + t["gap"] if t["act"] == "Call" else BASE
    prev_before = pol._prev
    if mode == "get_timeout":
        r = pol.get_timeout(ts)
        delay = 0 if r is None else r
    else:
        clock.now = ts
        clock.slept = []
        if mode == "wait_sync":
            pol.wait_sync()
        else:
            asyncio.run(pol.wait())
        delay = clock.now - ts
    state["rel"] = ts + delay
    adv = 0 if prev_before is None else pol._prev - prev_before
    return delay, adv


def replay_graph(chk, rec, D, transitions, modes, probes):
    """Drive a real RPSPolicer through path + transition + probe calls for every transition of the exported
    graph; everything observed is recorded as a trace that TracePolicer.tla judges at property level.
    Returns the number of steps on which the implementation differed from the pinned slot arithmetic of
    Policer.tla (informational 'model drift', not a violation)."""
    import gufo.snmp.policer as P
    init = graph.key({"started": False, "off": 0})
    paths = graph.shortest_paths(transitions, init)
    clock = VClock(BASE)
    saved = (P.perf_counter_ns, P.sleep, P.asyncio)
    drift = 0
    runs = []

    class AsyncShim:
        sleep = staticmethod(clock.asleep)

    P.perf_counter_ns, P.sleep, P.asyncio = clock.perf_counter_ns, clock.sleep, AsyncShim
    try:
        for t in transitions:
            fk = graph.key(t["from"])
            if fk not in paths:
                raise ToolError("unreachable source state in exported graph: %s" % fk)
            for mode in modes:
                try:
                    pol = _mk(D)
                except Refused:
                    continue
                st = {"rel": BASE}
                first_ev = rec.n
                rec.emit({"ev": "New", "D": D})
                steps = paths[fk] + [t] + [dict(act="Call", gap=g, probe=True) for g in probes]
                for step in steps:
                    try:
                        delay, adv = _apply(pol, mode, st, step, clock)
                    except Exception as e:  # a crash of the code under test is data
                        rec.emit({"ev": "Crash", "exc": type(e).__name__})
                        break
                    if "delay" in step and (delay, adv) != (step["delay"], step["adv"]):
                        drift += 1
                    gap = step["gap"] if step["act"] == "Call" else 0
                    rec.emit({"ev": "Call", "gap": gap, "delay": max(min(delay, 2 ** 31 - 1), -2 ** 31 + 1)})
                runs.append((first_ev, rec.n, dict(D=D, mode=mode, steps=steps)))
                chk.case(("tr", D, fk, t["act"], t["gap"], mode))
        chk.sample(dict(kind="transition-replay", D=D, transition=transitions[min(3, len(transitions) - 1)], probes=probes))
    finally:
        P.perf_counter_ns, P.sleep, P.asyncio = saved
    return drift, runs


def _in_fresh_thread(fn, *a):
    import threading
    box = {}

    def run():
        try:
            box["r"] = fn(*a)
        except BaseException as e:  # noqa
            box["e"] = e
    t = threading.Thread(target=run)
    t.start()
    t.join()
    if "e" in box:
        raise box["e"]
    return box.get("r")


class _TwoWorkers:
    """two long-lived threads taking turns"""

    def __init__(self):
        import threading, queue
        self.qs = [queue.Queue(), queue.Queue()]
        self.out = queue.Queue()
        self.n = 0
        for q in self.qs:
            threading.Thread(target=self._loop, args=(q,), daemon=True).start()

    def _loop(self, q):
        while True:
            item = q.get()
            if item is None:
                return
            fn, a = item
            try:
                self.out.put(("r", fn(*a)))
            except BaseException as e:  # noqa
                self.out.put(("e", e))

    def call(self, fn, *a):
        self.n += 1
        self.qs[self.n % 2].put((fn, a))
        k, v = self.out.get()
        if k == "e":
            raise v
        return v

    def stop(self):
        for q in self.qs:
            q.put(None)


def random_trace(rec, rng, D, steps, gapcap, caller=None):
    """caller: how the (strictly sequential) calls reach the policer: None = the calling thread; otherwise a function
    caller(fn, *args) that runs each call in another thread - the limiter's state belongs to the policer, not to a thread"""
    try:
        pol = _mk(D)
    except Refused:
        return
    rec.emit({"ev": "New", "D": D})
    base = BASE + rng.randrange(10 ** 6)
    rel = base
    first = True
    for _ in range(steps):
        c = rng.random()
        if first:
            g = 0
        elif c < 0.3:
            g = 0
        elif c < 0.55:
            g = rng.randrange(0, D)
        elif c < 0.7:
            g = D
        elif c < 0.85:
            g = rng.randrange(D, gapcap + 1) if gapcap >= D else rng.randrange(0, gapcap + 1)
        else:
            g = rng.choice([D - 1, D + 1, 2 * D - 1, 2 * D, gapcap])
        first = False
        g = max(0, min(g, gapcap))
        ts = rel + g
        try:
            r = pol.get_timeout(ts) if caller is None else caller(pol.get_timeout, ts)
            delay = 0 if r is None else int(r)
        except Exception as e:
            rec.emit({"ev": "Crash", "exc": type(e).__name__})
            return
        delay = max(min(delay, 2 ** 31 - 1), -2 ** 31 + 1)
        rec.emit({"ev": "Call", "gap": g, "delay": delay})
        rel = ts + delay


# one call is one request on the wire, however long its argument is (2, 65, 150 and 200 names)
BIG_LISTS = [["1.3.6.1.4.1.9999.5.1", "1.3.6.1.4.1.9999.5.2"]] + [["1.3.6.1.4.1.9999.5.%d" % (i % 5 + 1) for i in range(n)] for n in (65, 150, 200)]


def paced_run(client, pattern, cfg, rps, n):
    """n get() calls through rate-limited session(s), each inside its own `with` block (pattern reenter) or alternating between two
    sessions that share one RPSPolicer (pattern shared).  Returns the Rate event (microseconds, measured at the agent), or None when
    fewer than n requests arrived (nothing to judge)."""
    import asyncio, socket, threading, time
    from vlib import agent as ag
    from gufo.snmp import SnmpVersion
    from gufo.snmp.policer import RPSPolicer
    sock = socket.socket(socket.AF_INET, socket.SOCK_DGRAM)
    sock.bind(("127.0.0.1", 0))
    sock.settimeout(0.05)
    stop = {"v": False}
    arrivals = []

    def agent_loop():
        a = ag.Agent()
        while not stop["v"]:
            try:
                data, peer = sock.recvfrom(65535)
            except OSError:
                continue
            t = time.monotonic()
            try:
                req = ag.Request(cfg, data)
                if req.names and not req.broken:
                    arrivals.append(t)
                    sock.sendto(a.reply(cfg, req, [(bytes(req.names[0]), ("int", 1))]), peer)
            except Exception:  # noqa
                pass
    th = threading.Thread(target=agent_loop, daemon=True)
    th.start()
    kw = dict(port=sock.getsockname()[1], community=cfg.community, version=SnmpVersion.v2c, timeout=1.0)
    oid = "1.3.6.1.2.1.1.3.0"
    if client == "sync":
        from gufo.snmp.sync_client import SnmpSession
        if pattern == "reenter":
            s = SnmpSession("127.0.0.1", limit_rps=rps, **kw)
            for _ in range(n):
                try:
                    with s:
                        s.get(oid)
                except Exception:  # noqa
                    pass
        else:
            pol = RPSPolicer(rps)
            ss = [SnmpSession("127.0.0.1", policer=pol, **kw), SnmpSession("127.0.0.1", policer=pol, **kw)]
            for k in range(n):
                try:
                    with ss[k % 2] as s:
                        s.get(oid)
                except Exception:  # noqa
                    pass
    else:
        from gufo.snmp.async_client import SnmpSession

        async def go():
            if pattern == "reenter":
                s = SnmpSession("127.0.0.1", limit_rps=rps, **kw)
                for _ in range(n):
                    try:
                        async with s:
                            await s.get(oid)
                    except Exception:  # noqa
                        pass
            else:
                pol = RPSPolicer(rps)
                ss = [SnmpSession("127.0.0.1", policer=pol, **kw), SnmpSession("127.0.0.1", policer=pol, **kw)]
                for k in range(n):
                    try:
                        async with ss[k % 2] as s:
                            await s.get(oid)
                    except Exception:  # noqa
                        pass
        asyncio.run(go())
    time.sleep(0.05)
    stop["v"] = True
    th.join(1.0)
    sock.close()
    if len(arrivals) < n:
        return None
    span = int((arrivals[n - 1] - arrivals[0]) * 1e6)
    # one D of measurement allowance: the agent thread time-stamps arrivals, not releases
    return {"ev": "Rate", "D": int(10 ** 6 // rps), "n": n - 1, "span": span, "maxdelay": 0}


def session_binding(chk, thorough):
    """A recording policer is given to real sync / async sessions; Grant / Wire events are judged by TracePolicer.tla."""
    import asyncio, threading
    from gufo.snmp.policer import BasePolicer
    from vlib import apidrv, walks, scripts, agent as ag
    std = scripts.std_cfgs()
    rec = trace.Recorder("policer-session")
    lock = threading.Lock()

    def emit(e):
        with lock:
            rec.emit(e)

    class Rec(BasePolicer):
        def get_timeout(self, ts):
            emit({"ev": "Grant"})
            return None

    class Sink:
        """stands in for the session trace recorder: only requests reaching the agent matter here"""
        n = 0

        def emit(self, e):
            # the engine-discovery / time-synchronisation probes are the session's own business (the sync client does not police
            # them, the async client does): the statement is about the requests the caller issues
            if e.get("ev") == "Send" and e.get("nwire") and e.get("op") != "refresh":
                emit({"ev": "Wire"})
    mib = [bytes([43, 6, 1, 4, 1, 206, 15, 5, i]) for i in range(1, 6)]
    nsess = 0
    def wrap(session):
        """limit_rps= path: the session built its own RPSPolicer; record every consultation of it (it still sleeps for real)"""
        pol = getattr(session, "_policer", None)
        if pol is None:
            return
        orig = pol.get_timeout

        def rec_get_timeout(ts):
            emit({"ev": "Grant"})
            return orig(ts)
        pol.get_timeout = rec_get_timeout

    for cn, variant in [(c, v) for c in ("v2c", "v1", "v3-md5") for v in ("policer", "limit_rps")]:
        cfg = std[cn]
        if variant == "limit_rps" and cn == "v1" and not thorough:
            continue
        kw = dict(policer=Rec()) if variant == "policer" else dict(limit_rps=200, allow_bulk=False)
        # sync
        holder = {}
        emit({"ev": "Sess"})
        api = apidrv.SyncApi(Sink(), cfg, lambda req: holder["r"](req), timeout=0.5, **kw)
        if variant == "limit_rps":
            wrap(api.session)
        agent = ag.Agent(engine=cfg.engine or None) if cfg.engine else ag.Agent()
        holder["r"] = walks.honest_responder(agent, api.cfgref, mib, 2)
        s = api.session
        try:
            s.get("1.3.6.1.4.1.9999.5.1")
            s.get_many(["1.3.6.1.4.1.9999.5.1", "1.3.6.1.4.1.9999.5.2"])
            list(s.getnext("1.3.6.1.4.1.9999.5"))
            if cfg.ver != "v1":
                list(s.getbulk("1.3.6.1.4.1.9999.5", 2))
            list(s.fetch("1.3.6.1.4.1.9999.5"))           # GETBULK arm, or the GETNEXT arm (v1 / allow_bulk=False)
        except Exception:
            pass
        api.close()
        nsess += 1

        async def go():
            holder2 = {}
            emit({"ev": "Sess"})
            api2 = await apidrv.AsyncApi.create(Sink(), cfg, lambda req: holder2["r"](req), timeout=0.5, **(dict(policer=Rec()) if variant == "policer" else kw))
            if variant == "limit_rps":
                wrap(api2.session)
            holder2["r"] = walks.honest_responder(agent, api2.cfgref, mib, 2)
            s2 = api2.session
            try:
                await s2.get("1.3.6.1.4.1.9999.5.1")
                await s2.get_many(["1.3.6.1.4.1.9999.5.1", "1.3.6.1.4.1.9999.5.2"])
                async for _ in s2.getnext("1.3.6.1.4.1.9999.5"):
                    pass
                if cfg.ver != "v1":
                    async for _ in s2.getbulk("1.3.6.1.4.1.9999.5", 2):
                        pass
                async for _ in s2.fetch("1.3.6.1.4.1.9999.5"):
                    pass
            except Exception:
                pass
            api2.close()
        asyncio.run(go())
        nsess += 1
    # v3 sessions that have to discover the engine id first, with the first discovery datagram lost and the handshake retried:
    # whatever the handshake does with the limiter, the requests issued afterwards are policed
    from checks import c13
    for cn in ("v3-md5", "v3-sha1-aes"):
        cfg = std[cn]
        for variant in ("policer", "limit_rps"):
            kw = dict(policer=Rec()) if variant == "policer" else dict(limit_rps=200)
            # sync
            holder = {}
            emit({"ev": "Sess"})
            api = apidrv.SyncApi(Sink(), cfg, lambda req: holder["r"](req), timeout=0.15, engine_given=False, **kw)
            if variant == "limit_rps":
                wrap(api.session)
            st = {"engine": "A17", "clock": 1}
            holder["r"] = c13.make_responder(st, api.cfgref, ["drop"] + [("reply", "A17", 1)] * 12)
            s = api.session
            for call in ("enter", "enter", "get", "get", "refresh", "get", "get"):
                try:
                    if call == "enter":
                        s.__enter__()
                    elif call == "refresh":
                        s.refresh()
                    else:
                        s.get("1.3.6.1.2.1.1.5.0")
                except Exception:
                    pass
            api.close()
            nsess += 1

            async def go2():
                holder2 = {}
                emit({"ev": "Sess"})
                api2 = await apidrv.AsyncApi.create(Sink(), cfg, lambda req: holder2["r"](req), timeout=0.15, engine_given=False,
                                                    **(dict(policer=Rec()) if variant == "policer" else kw))
                if variant == "limit_rps":
                    wrap(api2.session)
                st2 = {"engine": "A17", "clock": 1}
                holder2["r"] = c13.make_responder(st2, api2.cfgref, ["drop"] + [("reply", "A17", 1)] * 12)
                s2 = api2.session
                for call in ("enter", "enter", "get", "get", "refresh", "get", "get"):
                    try:
                        if call == "enter":
                            await s2.__aenter__()
                        elif call == "refresh":
                            await s2.refresh()
                        else:
                            await s2.get("1.3.6.1.2.1.1.5.0")
                    except Exception:
                        pass
                api2.close()
            asyncio.run(go2())
            nsess += 1
    # the wire as the AGENT sees it: one datagram per grant, also when replies are slow (later than half the timeout) or missing -
    # whatever the layers below the Python client do on their own (a retransmission is a request on the wire like any other)
    class NoSink:
        n = 0

        def emit(self, e):
            pass
    import time as _time
    for cn in ("v2c", "v3-md5"):
        cfg = std[cn]
        for client in ("sync", "async"):
            for variant in ("policer", "limit_rps"):
                kw = dict(policer=Rec()) if variant == "policer" else dict(limit_rps=150)
                fates = ["ok", "slow", "ok", "lost", "slow", "ok", "lost", "ok"]

                def make(agent, cfgref, st):
                    inner = walks.honest_responder(agent, cfgref, mib, 2)

                    def respond(req):
                        if req.broken or not req.names:
                            return inner(req)                     # discovery / time synchronisation: not the caller's requests
                        emit({"ev": "Wire"})
                        fate = fates[st["k"] % len(fates)]
                        st["k"] += 1
                        if fate == "lost":
                            return []
                        if fate == "slow" and client == "sync":
                            _time.sleep(0.26)                      # of a 0.4 s timeout (the agent thread sleeps, not the client)
                        return inner(req)
                    return respond
                if client == "sync":
                    holder = {}
                    emit({"ev": "Sess"})
                    api = apidrv.SyncApi(NoSink(), cfg, lambda req: holder["r"](req), timeout=0.4, **kw)
                    if variant == "limit_rps":
                        wrap(api.session)
                    stc = {"k": 0}
                    holder["r"] = make(ag.Agent(engine=cfg.engine or None) if cfg.engine else ag.Agent(), api.cfgref, stc)
                    for k in range(8):
                        try:
                            if k % 2:
                                api.session.get_many(BIG_LISTS[k % len(BIG_LISTS)])
                            else:
                                api.session.get("1.3.6.1.4.1.9999.5.%d" % (k % 5 + 1))
                        except Exception:
                            pass
                        t_end = _time.monotonic() + 2.0               # the agent thread has recorded this request before the next grant is asked for
                        while stc["k"] < k + 1 and _time.monotonic() < t_end:
                            _time.sleep(0.002)
                    _time.sleep(0.05)
                    api.close()
                else:
                    async def go3():
                        holder2 = {}
                        emit({"ev": "Sess"})
                        api2 = await apidrv.AsyncApi.create(NoSink(), cfg, lambda req: holder2["r"](req), timeout=0.25, **(dict(policer=Rec()) if variant == "policer" else kw))
                        if variant == "limit_rps":
                            wrap(api2.session)
                        holder2["r"] = make(ag.Agent(engine=cfg.engine or None) if cfg.engine else ag.Agent(), api2.cfgref, {"k": 0})
                        for k in range(8):
                            try:
                                if k % 2:
                                    await api2.session.get_many(BIG_LISTS[k % len(BIG_LISTS)])
                                else:
                                    await api2.session.get("1.3.6.1.4.1.9999.5.%d" % (k % 5 + 1))
                            except Exception:
                                pass
                        api2.close()
                    asyncio.run(go3())
                nsess += 1
    # the limiter's memory survives everything a caller may do with the session between requests: leaving and re-entering the
    # context for every request, sharing one policer object between sessions.  Real time, measured at the agent: the n arrivals are
    # one window of the property (TracePolicer Rate event); reported after three failing runs.
    for client in ("sync", "async"):
        for pattern in ("reenter", "shared"):
            ok = False
            last = None
            for attempt in range(3):
                last = paced_run(client, pattern, std["v2c"], rps=10, n=6)
                if last is None:
                    ok = True
                    break
                recp = trace.Recorder("policer-paced")
                recp.emit({"ev": "New", "D": 100000})
                recp.emit(last)
                vp = trace.validate("TracePolicer.tla", "TracePolicer.cfg", recp.close(), timeout=300)
                if attempt == 0:
                    chk.add_tlc(vp["res"], "TracePolicer(paced %s %s)" % (client, pattern))
                    chk.case(("paced", client, pattern), nontrivial=True)
                if vp["accepted"]:
                    ok = True
                    break
            if not ok:
                chk.violation(dict(kind="paced-session", client=client, pattern=pattern),
                              "%s session with limit_rps=10, %s: %d requests reached the agent within %d ms (they must span more than %d ms)" %
                              (client, "entered and left around every request" if pattern == "reenter" else "two sessions sharing one policer, entered in turn",
                               last["n"], last["span"] // 1000, (last["n"] - 2) * 100), dict(kind="paced", client=client, pattern=pattern, event=last))
            nsess += 1
    path = rec.close()
    nwire = sum(1 for e in rec.events if e["ev"] == "Wire")
    if nwire < 40:
        raise ToolError("session binding run too small: %d requests" % nwire)
    v = trace.validate("TracePolicer.tla", "TracePolicer.cfg", path, timeout=600)
    chk.add_tlc(v["res"], "TracePolicer(session binding)")
    if not v["accepted"]:
        at = v["rejected_at"]
        chk.violation(dict(kind="session-binding"), "a request reached the wire without a fresh grant from the policer (event %d of the Grant/Wire trace)" % at,
                      dict(events=rec.events[max(0, at - 8):at]))
    else:
        chk.traces += nsess
        chk.case(("session-binding", nwire), n=nwire)
        chk.extra["session_binding_requests"] = nwire


def run(tier):
    chk = Check("C19", tier)
    thorough = tier == "thorough"
    rng = random.Random(SEED)
    chk.rule = ("spec->impl: every transition (phase offset x gap 0..3D) of the TLC-exported Policer graph, replayed on a "
                "real RPSPolicer via get_timeout / wait_sync / wait under a virtual clock; distinct = (D, source state, gap, mode). "
                "impl->spec: random non-decreasing call sequences validated step by step by TracePolicer.tla. "
                "A case is non-trivial when it reaches the Call action (every case after the first call).")
    # 1. design level: invariants incl. window property on the bounded model
    mc = [(1, 3), (2, 4), (3, 4), (4, 4), (7, 3)] if not thorough else [(1, 5), (2, 5), (3, 5), (4, 5), (5, 4), (7, 4), (8, 4), (16, 3)]
    for D, K in mc:
        cfg = _cfg("SPECIFICATION Spec\nCONSTANTS\n D = %d\n MaxGap = %d\n K = %d\n"
                   "INVARIANTS TypeOK DelayAtMostD SlotInv SlotAdvance Window Monotone\nCHECK_DEADLOCK FALSE\n" % (D, 3 * D, K),
                   "MC_Policer_%d.cfg" % D)
        res = tlc.run_tlc("MC_Policer.tla", cfg, workers=8, timeout=900)
        tlc.require_ok(res, "MC_Policer D=%d" % D)
        tlc.require_coverage(res, ["First", "Call"], "MC_Policer D=%d" % D)
        chk.add_tlc(res, "MC_Policer D=%d K=%d" % (D, K))
    # 2. spec -> impl: exported graph replayed
    Ds = [1, 2, 3, 7, 8] if not thorough else [1, 2, 3, 4, 5, 7, 8, 13, 16, 31, 32, 64]
    construct = None
    grec = trace.Recorder("policer-graph")
    drift, allruns = 0, []
    for D in Ds:
        cfg = _cfg("SPECIFICATION ExportSpec\nCONSTANTS\n D = %d\n MaxGap = %d\n K = 0\nVIEW ExportView\n"
                   "INVARIANTS TypeOK DelayAtMostD SlotInv\nCHECK_DEADLOCK FALSE\n" % (D, 3 * D), "MC_Policer_export_%d.cfg" % D)
        res = tlc.run_tlc("MC_Policer.tla", cfg, workers=1, timeout=600, coverage=False)
        tlc.require_ok(res, "export D=%d" % D)
        trs = [p for p in res.printed if isinstance(p, dict) and "act" in p]
        for p in res.printed:
            if isinstance(p, dict) and p.get("kind") == "construct":
                construct = p["table"]
        # dedupe
        seen, uniq = set(), []
        for t in trs:
            k = graph.key(t)
            if k not in seen:
                seen.add(k)
                uniq.append(t)
        if len(uniq) < D * (3 * D + 1):
            raise ToolError("export incomplete for D=%d: %d transitions" % (D, len(uniq)))
        chk.add_tlc(res, "export D=%d" % D)
        dr, runs = replay_graph(chk, grec, D, uniq, ["get_timeout", "wait_sync", "wait"], [0, 0, D - 1, 0, 0] if D > 1 else [0, 0, 0, 0])
        drift += dr
        allruns += runs
    gpath = grec.close()
    v = trace.validate("TracePolicer.tla", "TracePolicer.cfg", gpath, timeout=1800)
    chk.add_tlc(v["res"], "TracePolicer(graph replay)")
    if not v["accepted"]:
        at = v["rejected_at"]
        run = [r for r in allruns if r[0] < at <= r[1]]
        info = run[0][2] if run else {}
        chk.violation(dict(kind="transition", mode=info.get("mode")),
                      "graph replay on real RPSPolicer violates C19 at event %d %s (D=%s, mode=%s)" % (at, json.dumps(v.get("event")), info.get("D"), info.get("mode")),
                      dict(events=grec.events[run[0][0]:at] if run else [], **info))
    else:
        chk.traces += len(allruns)
    chk.extra["model_drift_steps"] = drift
    if drift:
        print("NOTE: implementation differs from the pinned slot arithmetic of Policer.tla on %d replayed steps (property-level verdict is what counts)" % drift)
    # 3. constructor refusals (model table + float specials)
    from gufo.snmp.policer import RPSPolicer
    if not construct:
        raise ToolError("no constructor table exported")
    rows = construct.values() if isinstance(construct, dict) else construct
    for row in rows:
        rps, exp = row["rps"], row["res"]
        try:
            p = RPSPolicer(float(rps))
            got = p._delta
        except ValueError:
            got = "Refuse"
        except Exception as e:
            got = "exc:" + type(e).__name__
        chk.case(("construct", rps))
        # property level: non-positive or unrepresentably high (interval 0) must be refused; others accepted
        if (exp == "Refuse") != (got == "Refuse") or str(got).startswith("exc:"):
            chk.violation(dict(kind="construct"), "RPSPolicer(%r): model %r, implementation %r" % (rps, exp, got), dict(rps=rps))
    for special in (float("inf"), float("nan"), -0.0, 1e30, -1e-9):
        try:
            RPSPolicer(special)
            got = "accepted"
        except ValueError:
            got = "Refuse"
        except Exception as e:
            got = "exc:" + type(e).__name__
        chk.case(("construct", repr(special)))
        if got != "Refuse":
            chk.violation(dict(kind="construct"), "RPSPolicer(%r) not refused with ValueError: %s" % (special, got), dict(rps=repr(special)))
    # 4. impl -> spec: random traces
    rec = trace.Recorder("policer")
    ntr = 0
    plan = [(1, 400), (2, 400), (3, 400), (10, 400), (1000, 400), (10 ** 6, 300), (10 ** 9, 200), (333333333, 200)]
    reps = 3 if not thorough else 40
    for _ in range(reps):
        for D, steps in plan:
            gapcap = 3 * D if D < 10 ** 8 else (2 ** 31 - 1 - 2 * D if D > 5 * 10 ** 8 else D)
            gapcap = max(1, min(gapcap, 2 ** 31 - 1 - 2 * D))
            random_trace(rec, rng, D, steps, gapcap)
            ntr += 1
    # the configured RATE: 1200 requests, each asked for at the release of the previous one, through limiters configured with rates whose
    # interval is not a round number of nanoseconds / microseconds / milliseconds (the long window sees what the short ones cannot)
    from gufo.snmp.policer import RPSPolicer as _RP
    for rps in (3, 7, 30, 150, 300, 700, 999, 0.7, 12.5):
        try:
            pol = _RP(rps)
        except Exception as e:  # noqa
            rec.emit({"ev": "Crash", "exc": type(e).__name__})
            continue
        ts = BASE
        first = last = None
        maxdelay = 0
        n = 1200 if rps >= 1 else 400
        try:
            for i in range(n):
                r = pol.get_timeout(ts)
                delay = 0 if r is None else int(r)
                maxdelay = max(maxdelay, delay)
                ts = ts + delay
                first = ts if first is None else first
                last = ts
        except Exception as e:  # noqa
            rec.emit({"ev": "Crash", "exc": type(e).__name__})
            continue
        rec.emit({"ev": "Rate", "D": int(10 ** 6 // rps) if isinstance(rps, int) else int(10 ** 6 / rps), "n": n, "span": min((last - first + 999) // 1000, 2 ** 31 - 1), "maxdelay": min(maxdelay // 1000, 2 ** 31 - 1)})
        chk.case(("rate", rps))
        ntr += 1
    # the same sequential histories with every call made from another thread (a fresh thread per call; two threads taking turns)
    tw = _TwoWorkers()
    for D, steps in [(3, 60), (1000, 60), (10 ** 6, 60), (10 ** 8, 40)]:
        for caller in (_in_fresh_thread, tw.call):
            random_trace(rec, rng, D, steps, 3 * D, caller=caller)
            ntr += 1
    tw.stop()
    # realistic intervals (rps 2 .. 1000): calls landing at chosen fractions of a slot after k whole idle intervals
    for D in (10 ** 6, 10 ** 7, 10 ** 8, 5 * 10 ** 8):
        for rep in range(2 if not thorough else 10):
            try:
                pol = _mk(D)
            except Refused:
                continue
            rec.emit({"ev": "New", "D": D})
            rel = BASE + rng.randrange(10 ** 9)
            first = True
            kmax = max(0, min(3, (2 ** 31 - 1 - 2 * D) // D - 1))
            for f in [0, 1, 999, 500, 990, 999, 9999, 1, 0, 9990, 5000, 9999, 9999, 10000, 10001, 1, 9995]:
                g = 0 if first else (D * f) // 10000 + D * rng.randrange(0, kmax + 1)
                first = False
                g = min(g, 2 ** 31 - 1 - 2 * D)
                ts = rel + g
                try:
                    r = pol.get_timeout(ts)
                    delay = 0 if r is None else int(r)
                except Exception as e:
                    rec.emit({"ev": "Crash", "exc": type(e).__name__})
                    break
                rec.emit({"ev": "Call", "gap": g, "delay": max(min(delay, 2 ** 31 - 1), -2 ** 31 + 1)})
                rel = ts + delay
            ntr += 1
    # intervals longer than one second (rps < 1), through get_timeout and through wait_sync() / wait() under the virtual clock.
    # TLC's integers are 32-bit: these runs are recorded in microseconds (every quantity is a multiple of 1000 ns by construction)
    import gufo.snmp.policer as P
    for rps in (0.8, 0.5, 0.25, 0.1):
        for mode in ("get_timeout", "wait_sync", "wait"):
            pol = RPSPolicer(rps)
            D = pol._delta
            if D % 1000:
                continue
            clock = VClock(BASE)
            saved = (P.perf_counter_ns, P.sleep, P.asyncio)

            class AsyncShim2:
                sleep = staticmethod(clock.asleep)
            P.perf_counter_ns, P.sleep, P.asyncio = clock.perf_counter_ns, clock.sleep, AsyncShim2
            try:
                rec.emit({"ev": "New", "D": D // 1000})
                st = {"rel": BASE}
                gaps = [0, 0, 0, D // 2, 0, D, 0, (3 * D) // 4, 0, 0, 2 * D, 0, D // 4, D - 1000, 0, 1000, 0]
                first = True
                for g in gaps:
                    g = (g // 1000) * 1000
                    step = dict(act="First" if first else "Call", gap=0 if first else g)
                    first = False
                    try:
                        delay, adv = _apply(pol, mode, st, step, clock)
                    except Exception as e:
                        rec.emit({"ev": "Crash", "exc": type(e).__name__})
                        break
                    rec.emit({"ev": "Call", "gap": step["gap"] // 1000, "delay": max(min(int(delay) // 1000, 2 ** 31 - 1), -2 ** 31 + 1)})
                chk.case(("long-interval", rps, mode))
                ntr += 1
            finally:
                P.perf_counter_ns, P.sleep, P.asyncio = saved
    path = rec.close()
    v = trace.validate("TracePolicer.tla", "TracePolicer.cfg", path, timeout=1200)
    chk.add_tlc(v["res"], "TracePolicer")
    if not v["accepted"]:
        at = v["rejected_at"]
        # cut: from the last New before `at`
        start = max(i for i in range(at) if rec.events[i]["ev"] == "New")
        at = min(at, len(rec.events))
        chk.violation(dict(kind="trace"), "recorded RPSPolicer run rejected by TracePolicer at event %d: %s" % (at, json.dumps(v.get("event"))),
                      dict(events=rec.events[start:at], spec="TracePolicer.tla"))
    else:
        chk.traces += ntr
        chk.case(("traces", ntr), n=rec.n)
        chk.sample(dict(kind="trace-events", events=rec.events[:4]))
    # 4b. the sessions really consult the policer before EVERY request (get, get_many, each step of getnext / getbulk / fetch)
    session_binding(chk, thorough)
    # 5. unbounded part: Apalache inductive invariant (symbolic D, unbounded times)
    ok0, out0, w0 = tlc.run_apalache(["check", "--cinit=ConstInit", "--init=Init", "--inv=IndInv", "--length=0", "Policer_apa.tla"])
    ok1, out1, w1 = tlc.run_apalache(["check", "--cinit=ConstInit", "--init=IndInit", "--inv=IndInv", "--length=1", "Policer_apa.tla"])
    if not (ok0 and ok1):
        raise ToolError("Apalache inductive-invariant obligations failed:\n" + out0[-800:] + out1[-800:])
    chk.extra["apalache"] = dict(obligations=2, discharged=2, wall=[round(w0, 1), round(w1, 1)],
                                 what="Init => IndInv; IndInv /\\ Next => IndInv' for symbolic D in 1..10^9, unbounded Int times")
    chk.assumptions += ["calls are sequential and the clock is monotonic (hypothesis of C19)",
                        "time.sleep/asyncio.sleep sleep at least the requested time (virtual clock in replay)",
                        "window bound for all k derived arithmetically from the inductive invariant (DESIGN.md C19)"]
    return chk.finish()


def replay(path):
    """Re-execute a stored violating case against the real RPSPolicer and let TracePolicer judge it."""
    d = json.load(open(path))
    r = d["replay"]
    chk = Check("C19", "quick")
    rec = trace.Recorder("policer-replay")
    if "steps" in r:
        replay_graph(chk, rec, r["D"], [], [], [])  # no-op, keeps imports warm
        import gufo.snmp.policer as P
        clock = VClock(BASE)
        saved = (P.perf_counter_ns, P.sleep, P.asyncio)

        class AsyncShim:
            sleep = staticmethod(clock.asleep)
        P.perf_counter_ns, P.sleep, P.asyncio = clock.perf_counter_ns, clock.sleep, AsyncShim
        try:
            pol = _mk(r["D"])
            st = {"rel": BASE}
            rec.emit({"ev": "New", "D": r["D"]})
            for step in r["steps"]:
                try:
                    delay, _ = _apply(pol, r["mode"], st, step, clock)
                except Exception as e:
                    rec.emit({"ev": "Crash", "exc": type(e).__name__})
                    break
                rec.emit({"ev": "Call", "gap": step["gap"] if step["act"] == "Call" else 0, "delay": delay})
        finally:
            P.perf_counter_ns, P.sleep, P.asyncio = saved
    elif "events" in r:
        # recorded random trace: re-drive the same gaps
        ev = r["events"]
        D = ev[0]["D"]
        pol = _mk(D)
        rec.emit({"ev": "New", "D": D})
        rel = BASE
        for e in ev[1:] + [d.get("failing_event") or {}]:
            if e.get("ev") != "Call":
                continue
            ts = rel + e["gap"]
            try:
                x = pol.get_timeout(ts)
            except Exception as ex:
                rec.emit({"ev": "Crash", "exc": type(ex).__name__})
                break
            delay = 0 if x is None else int(x)
            rec.emit({"ev": "Call", "gap": e["gap"], "delay": delay})
            rel = ts + delay
    v = trace.validate("TracePolicer.tla", "TracePolicer.cfg", rec.close())
    if v["accepted"]:
        print("replay: accepted (%d events) - property holds on this case" % v["n"])
        return 0
    print("VIOLATION property=C19 replay=%s" % path)
    print("  rejected at event %d: %s" % (v["rejected_at"], json.dumps(v.get("event"))))
    return 1
