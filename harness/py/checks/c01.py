"""C01 - no datagram can crash the client: the receive path is total.

Malform.tla (TLC) walks 15 well-formed templates (v1/v2c/v3 x Response/Report x plain/auth/DES/AES x 0..4 varbinds x
value types, exception values, a relative-OID name, a plaintext scoped PDU) and applies, at every TLV node, every
mutation derived from the BER position machine (truncation at every offset; length octet in {0, len-1, len+1, 7f, 80,
81, 82, 84, 88, ff}; long forms of 1..9 length octets; every tag the library knows, class / constructed bits, long-form
tags terminated / unterminated / overlong; emptied and inserted contents; trailing octets).  ByteStrings.tla enumerates
all strings of <= 4 (thorough 5) octets over the parser's byte classes; the driver adds all 65 792 strings of <= 2 octets.
Every datagram goes (i) to the three message decoders, SnmpValue::from_ber and both ciphers' decrypt through the Rust
replay binary (release semantics, catch_unwind, timeout) and (ii) to a real session of the matching version / security
level with each of get, get_many, getnext, getbulk, refresh pending, ids patched to match so that deep paths are reached;
mutated plaintext scoped PDUs are encrypted under the session key.  TraceCodec.tla judges totality: ok / err from the
decoders; a value, a skip or a documented Exception from the API - never PanicException, abort or hang."""
import json, random, itertools
from vlib import env, tlc, trace, corpus, rs, malform, rawdrv, agent as ag, scripts, refcodec as rc, refcrypto as rx
from vlib.report import Check
from vlib.project import exc_info
from vlib.env import ToolError, SEED

OPS = ["get", "get_many", "getnext", "getbulk", "refresh"]
RID = bytes([2, 4, 1, 0x23, 0x45, 0x67])
MID = bytes([2, 4, 2, 0x34, 0x56, 0x78])


def patch_ids(b, req, cfg=None):
    b = bytes(b)
    b = b.replace(RID, bytes([2, 4]) + req.reqid.to_bytes(4, "big"))
    b = b.replace(MID, bytes([2, 4]) + req.msgid.to_bytes(4, "big"))
    # keep the datagram authentic where it still parses, so that the mutation is what the receive path meets
    # (a session with an auth key drops replies whose MAC does not verify)
    if cfg is not None and cfg.ver == "v3" and cfg.auth != "none":
        try:
            m = rc.parse_msg(b)
            if m.get("ver") == "v3" and len(m["auth"]) == 12:
                pos = m["auth_pos"]
                z = b[:pos] + bytes(12) + b[pos + 12:]
                ka = rx.kul(cfg.auth, cfg.akt, cfg.akm, bytes(m["engine"]))
                b = b[:pos] + rx.hmac96(cfg.auth, ka, z) + b[pos + 12:]
        except Exception:
            pass
    return b


def api_case(cfg, op, make_dgram):
    """open a session, send op, inject make_dgram(req), recv. Returns (exc, bases, isexc, kind)"""
    import socket
    from gufo.snmp import _fast

    class NullRec:
        n = 0

        def emit(self, e):
            pass
    s = rawdrv.RawSession(NullRec(), cfg)
    try:
        if op == "get":
            w, _ = s.send("get", ["1.3.6.1.2.1.1.3.0"])
        elif op == "get_many":
            w, _ = s.send("get_many", ["1.3.6.1.2.1.1.3.0", "1.3.6.1.2.1.1.4.0"])
        elif op == "getnext":
            w, _ = s.send("getnext", ["1.3.6.1.2.1"])
        elif op == "getbulk":
            w, _ = s.send("getbulk", ["1.3.6.1.2.1"], maxrep=5)
        else:
            if cfg.ver != "v3":
                w, _ = s.send("get", ["1.3.6.1.2.1.1.3.0"])
                op = "get"
            else:
                w, _ = s.send("refresh", [])
        if w is None:
            return ("send-failed", [], True, "tool")
        req = ag.Request(cfg, w)
        d = make_dgram(req)
        s.agent.sendto(bytes(d), s.peer)
        res, exc = s.recv(op)
        # the datagram may have been skipped: the second recv then reports an empty socket
        return exc
    finally:
        s.agent.close()


class _NullRec:
    n = 0

    def emit(self, e):
        pass


HANGS = {"sync": 0, "async": 0}
HANG_LIMIT_S = 12.0            # the session timeout of these cases is 0.08 s


def public_api_case(client, cfg, op, make_dgram):
    """public_api_case_inner under a time limit: a call that has not returned after HANG_LIMIT_S is recorded as 'DidNotReturn' (the
    thread is abandoned; after two such cases the client is not driven any further - each abandoned call may spin for ever)"""
    from vlib import bounded
    if HANGS[client] >= 2:
        return None
    st, r = bounded.call(lambda: public_api_case_inner(client, cfg, op, make_dgram), HANG_LIMIT_S)
    if st == "hang":
        HANGS[client] += 1
        return ("DidNotReturn", [], True)
    return r


def public_api_case_inner(client, cfg, op, make_dgram):
    """the same stimulus through the PUBLIC API (sync / async SnmpSession; get, get_many and the getnext / getbulk iterators):
    the Python layer above the socket is part of the receive path.  Returns (exception name, bases, isexc)."""
    import asyncio
    from vlib import apidrv
    oid1, oid2, base = "1.3.6.1.2.1.1.3.0", "1.3.6.1.2.1.1.4.0", "1.3.6.1.2.1"
    answer = lambda req: [] if req.broken else [(bytes(make_dgram(req)), [])]
    if client == "sync":
        api = apidrv.SyncApi(_NullRec(), cfg, answer, timeout=0.08, engine_given=True)
        try:
            s = api.session
            if op == "get":
                s.get(oid1)
            elif op == "get_many":
                s.get_many([oid1, oid2])
            elif op == "getnext":
                for n, _ in enumerate(s.getnext(base)):
                    if n >= 3:
                        break
            elif op == "getbulk" and cfg.ver != "v1":
                for n, _ in enumerate(s.getbulk(base, 5)):
                    if n >= 6:
                        break
            else:
                s.refresh() if cfg.ver == "v3" else s.get(oid1)
            return ("", [], False)
        except BaseException as e:  # noqa
            name, bases, _ = exc_info(e)
            return (name, bases, isinstance(e, Exception))
        finally:
            api.close()

    async def go():
        api = await apidrv.AsyncApi.create(_NullRec(), cfg, answer, timeout=0.08, engine_given=True)
        try:
            s = api.session
            if op == "get":
                await s.get(oid1)
            elif op == "get_many":
                await s.get_many([oid1, oid2])
            elif op == "getnext":
                n = 0
                async for _ in s.getnext(base):
                    n += 1
                    if n >= 3:
                        break
            elif op == "getbulk" and cfg.ver != "v1":
                n = 0
                async for _ in s.getbulk(base, 5):
                    n += 1
                    if n >= 6:
                        break
            else:
                await (s.refresh() if cfg.ver == "v3" else s.get(oid1))
            return ("", [], False)
        except BaseException as e:  # noqa
            name, bases, _ = exc_info(e)
            return (name, bases, isinstance(e, Exception))
        finally:
            api.close()
    return asyncio.run(go())


def run(tier):
    chk = Check("C01", tier)
    thorough = tier == "thorough"
    rng = random.Random(SEED)
    chk.rule = ("datagrams: every Malform.tla mutant of 15 templates, every string of <= 2 octets, every string of <= 4 (5) octets over 14 byte classes, mutated "
                "plaintext scoped PDUs encrypted under the session key, privacy parameters / ciphertexts of odd sizes; targets: 3 message decoders + value decoder + "
                "decrypt (Rust), and real sessions of the matching configuration with each of 5 operations pending; distinct = (target, datagram); "
                "non-trivial = datagram that is not a well-formed message")
    templates, muts = malform.corpus_for(chk)
    tmap = {t["name"]: t for t in templates}
    strs, res = corpus.generate("ByteStrings.tla", ["BER.tla", "Octets.tla"], "CONSTANTS N = %d\n" % (5 if thorough else 4), timeout=1800)
    if res:
        chk.add_tlc(res, "ByteStrings.tla")
    bstr = [x["s"] for x in strs if "s" in x]
    short = [[]] + [[a] for a in range(256)] + [[a, b] for a in range(256) for b in range(256)]
    # --- (i) Rust decoders --------------------------------------------------------------------------------
    dgrams = [m["b"] for m in muts] + [t["b"] for t in templates] + bstr + (short if thorough else short[:257] + [short[i] for i in range(257, len(short), 7)])
    # all two-octet strings always go through the v2c decoder (cheap), the rest of the targets are sampled in quick
    reqs, meta = [], []
    for i, b in enumerate(dgrams):
        for ver in ("v1", "v2c", "v3"):
            reqs.append({"op": "decode_msg", "ver": ver, "b": b})
            meta.append(("msg-" + ver, i))
        reqs.append({"op": "decode_value", "b": b})
        meta.append(("value", i))
    if not thorough:
        for b in short:
            reqs.append({"op": "decode_msg", "ver": "v2c", "b": b})
            meta.append(("msg-v2c", -1))
    # decrypt path at the Rust level: odd salt / ciphertext sizes, garbage plaintext
    key16 = list(range(1, 17))
    for cipher in (1, 2):
        for pplen in (0, 1, 7, 8, 9, 16):
            for dlen in (0, 1, 7, 8, 9, 15, 16, 17, 24, 4080, 4088):
                reqs.append({"op": "priv", "cipher": cipher, "key": key16, "ops": [{"op": "decrypt", "data": [(i * 7) % 256 for i in range(dlen)], "pp": list(range(pplen)),
                                                                                     "engine": [1, 2, 3], "boots": "1", "time": "2"}]})
                meta.append(("decrypt", -2))
    if not rs.available():
        # hooks level 'off': the decoders are still reached through the real sessions below; the direct Rust-level calls are skipped
        chk.assumptions.append("hooks level 'off': direct decoder calls through the Rust replay binary were skipped for this tree")
        reqs, meta = [], []
    try:
        obs = rs.run(reqs, timeout=1800) if reqs else []
    except TimeoutError:
        chk.violation(dict(kind="hang", target="rust"), "the replay binary did not finish: a decoder does not terminate", dict(kind="hang"))
        obs = [{"r": "died"}] * len(reqs)
    rec = trace.Recorder("c01")
    batches = []
    recs, items = [], []

    def flush(evname):
        nonlocal recs, items
        if recs:
            a = rec.n
            rec.emit(dict(ev=evname, recs=recs))
            batches.append((a, rec.n, evname, items))
            recs, items = [], []
    for (tgt, i), o, rq in zip(meta, obs, reqs):
        r = o.get("r", "died")
        if tgt == "decrypt" and r == "ok":
            st = o["steps"][0]["res"]
            r = "panic" if st == "panic" else ("ok" if st == "ok" else "err")
        recs.append(dict(r=r))
        items.append((tgt, rq))
        chk.case((tgt, bytes(rq.get("b", [])).hex() if "b" in rq else json.dumps(rq)[:80]))
        if len(recs) >= 5000:
            flush("TotBatch")
    flush("TotBatch")
    print("  rust: %d decoder calls" % len(reqs), flush=True)
    # --- (ii) real sessions ---------------------------------------------------------------------------------
    std = scripts.std_cfgs()
    cases = []
    for mi, m in enumerate(muts):
        t = tmap[m["t"]]
        cfgname = t["cfg"]
        ops = OPS if thorough else [OPS[(mi + SEED) % 5], OPS[(mi * 3 + 1 + SEED) % 5]]
        if not thorough and (mi + SEED) % 3:
            ops = ops[:1]
        for op in dict.fromkeys(ops):
            cases.append((cfgname, op, m, mi))
    # templates themselves (incl. the relative-OID family, which is not mutated further) with every operation pending
    for ti, t in enumerate(templates):
        if t["ver"] == "scoped":
            continue
        for op in OPS:
            cases.append((t["cfg"], op, dict(t=t["name"], mut="none", why="", b=t["b"]), 100000 + ti))
    for cfgname, op, m, mi in cases:
        cfg = std[cfgname]
        if m["t"] == "scoped-plain":
            def mk(req, m=m, cfg=cfg):
                plain = patch_ids(m["b"], req)
                a = ag.Agent()
                kp = rx.kul(cfg.auth, cfg.pkt, cfg.pkm, a.engine)
                salt = bytes([0, 0, 0, 1, 9, 9, 9, mi % 256])
                ct = rx.usm_encrypt(cfg.priv, kp[:16], salt, (a.boots).to_bytes(4, "big"), (a.time).to_bytes(4, "big"), plain)
                return patch_ids(rc.enc_v3_msg(req.msgid, 3, a.engine, a.boots, a.time, cfg.user.encode(), bytes(12), salt, rc.tlv(0x04, ct)), req, cfg)
        else:
            def mk(req, m=m, cfg=cfg):
                return patch_ids(m["b"], req, cfg)
        try:
            exc = api_case(cfg, op, mk)
        except BaseException as e:  # noqa
            exc = "HARNESS:" + type(e).__name__
        name, bases, isexc = exc if isinstance(exc, tuple) else (exc, [], True)
        recs.append(dict(exc=name if isinstance(name, str) else "", bases=bases, isexc=isexc, op=op))
        items.append(("api", dict(cfg=cfgname, op=op, mutant=m)))
        chk.case(("api", cfgname, op, mi), nontrivial=m["why"] != "")
        if len(recs) >= 3000:
            flush("ApiBatch")
    # a sample of the same cases through the public sync / async API (the Python layer is part of the receive path)
    step = 29 if not thorough else 4
    npub = 0
    for ki, (cfgname, op, m, mi) in enumerate(cases):
        whole = m["mut"] == "none" and (("-name-" not in m["t"] and "-nested-" not in m["t"]) or (ki + SEED) % 6 == 0)   # the well-formed templates: every operation through both clients (the name-prefix family sampled)
        if not whole and (ki + SEED) % step:
            continue
        cfg = std[cfgname]
        if m["t"] == "scoped-plain":
            continue
        for client in (["sync", "async"] if whole else [["sync", "async"][(ki // step) % 2]]):
            try:
                r3 = public_api_case(client, cfg, op, lambda req, m=m, cfg=cfg: patch_ids(m["b"], req, cfg))
                if r3 is None:
                    continue                       # this client already failed to return twice: not driven further
                name, bases, isexc = r3
            except BaseException as e:  # noqa
                name, bases, isexc = "HARNESS:" + type(e).__name__, [], True
            recs.append(dict(exc=name, bases=bases, isexc=isexc, op=op))
            items.append(("api", dict(cfg=cfgname, op=client + "." + op, mutant=m)))
            chk.case(("public-api", client, cfgname, op, mi), nontrivial=m["why"] != "")
            npub += 1
        if len(recs) >= 3000:
            flush("ApiBatch")
    # no single datagram, but a schedule: well-formed non-matching datagrams arriving every ~0.3 ms across the request's deadline
    # (the receive loop recomputes its remaining time around the moment it reaches zero) - TimeoutError, never a panic
    from checks import c18
    for cfgname in ("v2c", "v3-md5"):
        for client in ("sync", "async"):
            for rep in range(2 if not thorough else 6):
                try:
                    res, _el = c18.run_flood(client, std[cfgname])
                except BaseException as e:  # noqa
                    res = "HARNESS:" + type(e).__name__
                if res == "NotRun":
                    continue
                recs.append(dict(exc="" if res == "delivered" else res, bases=[], isexc=res != "PanicException", op="get"))
                items.append(("api", dict(cfg=cfgname, op=client + ".get", mutant=dict(t="stray-flood", mut="across-deadline", why="", b=[]))))
                chk.case(("flood", client, cfgname, rep))
    # odd privacy parameter / ciphertext sizes through real DES / AES sessions
    for cfgname in ("v3-md5-des", "v3-sha1-aes"):
        cfg = std[cfgname]
        for pplen in (0, 1, 7, 8, 9, 16):
            for dlen in (0, 1, 7, 8, 9, 15, 16, 17, 24):
                for op in ("get", "getbulk"):
                    def mk(req, pplen=pplen, dlen=dlen, cfg=cfg):
                        a = ag.Agent()
                        return rc.enc_v3_msg(req.msgid, 3, a.engine, 1, 2, cfg.user.encode(), bytes(12), bytes(range(pplen)), rc.tlv(0x04, bytes((i * 5) % 256 for i in range(dlen))))
                    try:
                        exc = api_case(cfg, op, mk)
                    except BaseException as e:  # noqa
                        exc = "HARNESS:" + type(e).__name__
                    recs.append(dict(exc=exc if isinstance(exc, str) else "", bases=[], isexc=True, op=op))
                    items.append(("api", dict(cfg=cfgname, op=op, mutant=dict(t="priv-sizes", mut="pp=%d,data=%d" % (pplen, dlen), why="", b=[]))))
                    chk.case(("api-priv", cfgname, op, pplen, dlen))
    # short strings through a real v2c session
    for b in (short[:257] + [short[i] for i in range(257, len(short), 97 if not thorough else 3)]) + [s_ for k, s_ in enumerate(bstr) if k % (50 if not thorough else 5) == 0]:
        op = OPS[len(b) % 4]
        try:
            exc = api_case(std["v2c"], op, lambda req, b=b: bytes(b))
        except BaseException as e:  # noqa
            exc = "HARNESS:" + type(e).__name__
        recs.append(dict(exc=exc if isinstance(exc, str) else "", bases=[], isexc=True, op=op))
        items.append(("api", dict(cfg="v2c", op=op, mutant=dict(t="bytes", mut="raw", why="", b=b))))
        chk.case(("api-bytes", bytes(b).hex(), op))
        if len(recs) >= 3000:
            flush("ApiBatch")
    flush("ApiBatch")
    rec.close()
    print("  api: %d session cases (+ %d through the public sync/async API); %d batches" % (len(cases), npub, len(batches)), flush=True)
    v = trace.validate_parallel("TraceCodec.tla", "TraceCodec.cfg", rec.events, [(a, b) for a, b, _, _ in batches], k=12, name="c01")
    for i, r in enumerate(v["results"]):
        chk.add_tlc(r, "TraceCodec(c01)#%d" % i)
    chk.traces += len(batches)
    for idx in v["fails"]:
        a, b, evname, its = [x for x in batches if x[0] == idx][0]
        info = v["badrecs"].get(idx, dict(n=0, first=[]))
        ev = rec.events[idx]
        for f in info["first"]:
            r_ = ev["recs"][f - 1]
            tgt, what = its[f - 1]
            if evname == "TotBatch":
                sig = dict(target=tgt, r=r_["r"])
                chk.violation(sig, "%s on %s: %s" % (tgt, bytes(what.get("b", [])).hex()[:80] if "b" in what else json.dumps(what)[:120], r_["r"]), dict(kind="rust", request=what))
            else:
                m = what["mutant"]
                sig = dict(target="api", op=what["op"], ver=std[what["cfg"]].ver, exc=r_["exc"], template=m["t"], mut=m["mut"].split("=")[0])
                chk.violation(sig, "%s session, %s pending, datagram %s/%s (%s): %s" % (what["cfg"], what["op"], m["t"], m["mut"], bytes(m["b"]).hex()[:60], r_["exc"]), dict(kind="api", case=what))
        if info["n"] > len(info["first"]):
            chk.violation(dict(kind=evname, more=True), "%d more failing records in batch" % (info["n"] - len(info["first"])), dict(kind=evname))
    chk.sample(dict(kind="mutant", mutant={k: (x if k != "b" else x[:40]) for k, x in muts[4321].items()}))
    chk.sample(dict(kind="byte-string", s=bstr[999]))
    chk.assumptions += ["'touches memory outside the received bytes' is only observed through functional symptoms on the replayed inputs (DESIGN.md 6)",
                        "datagram lengths in the structured corpus are <= ~300 octets (plus 4080/4088-octet ciphertexts)"]
    return chk.finish()


def replay(path):
    d = json.load(open(path))
    r = d["replay"]
    if r.get("kind") == "rust":
        o = rs.run([r["request"]])[0]
        print(o)
        bad = o.get("r") not in ("ok", "err") or (o.get("r") == "ok" and any(s.get("res") == "panic" for s in o.get("steps", [])))
    elif r.get("kind") == "api":
        c = r["case"]
        m = c["mutant"]
        exc = api_case(scripts.std_cfgs()[c["cfg"]], c["op"], lambda req: patch_ids(m["b"], req))
        print(exc)
        name, bases, isexc = tuple(exc[:3]) if isinstance(exc, tuple) else (exc, [], exc != "PanicException")
        documented = {"SnmpError", "SnmpDecodeError", "SnmpEncodeError", "SnmpAuthError", "NoSuchInstance", "TimeoutError", "BlockingIOError",
                      "OSError", "ValueError", "StopIteration", "StopAsyncIteration", "ConnectionRefusedError"}
        bad = bool(name) and not (isexc and (name in documented or set(bases) & {"SnmpError", "OSError", "ValueError"}
                                              or (c["op"].endswith("get_many") and name == "RuntimeError")))
    else:
        bad = True
    if not bad:
        print("replay: accepted")
        return 0
    print("VIOLATION property=C01 replay=%s" % path)
    return 1
