"""C10 - unauthenticated or forged v3 replies are never accepted.

Session.tla (TLC) with the forged-security mutants in the alphabet: AcceptOnlyAuthenticated (the pinned behaviour is
reproduced by DEV_NoIncomingMacCheck and yields the expected counterexample).  Forgeries.tla (TLC) enumerates the
complete matrix MAC {valid, zero, random, one bit flipped, absent} x auth flag x msgData {encrypted, clear,
encrypted under another key} x body {Response, Report} and the verdict the property requires, plus the family of
near-miss MACs (every single-bit, xor-cancelling pair, sum-cancelling pair, rotation, reversal, partial MAC).  Every cell is sent,
as the only reply, to a pending get / get_many / getnext / getbulk on real sockets for {MD5, SHA-1} x {none, DES,
AES}; TraceSession.tla verifies the MAC term itself (HMAC interpreted by hashlib on the octets TLC zeroed) and
requires the call to keep waiting unless the reply is authentic.  Histories through the public API (discovery datagrams lost,
refresh retried) check the precondition of all this: the session still acts as the configured user afterwards."""
import json
from vlib import env, tlc, trace, corpus, rawdrv, agent as ag, scripts, sesscheck
from vlib.report import Check, confirm_by_replay, timing_event
from vlib.env import ToolError, SEED

CFGS = ["v3-md5", "v3-sha1", "v3-md5-des", "v3-sha1-aes", "v3-md5-aes", "v3-sha1-des"]


def matrix(cfgname):
    c = scripts.model_consts(cfgname)
    txt = "CONSTANTS\n  HasAuth = %s\n  HasPriv = %s\n" % ("TRUE" if c["HasAuth"] else "FALSE", "TRUE" if c["HasPriv"] else "FALSE")
    out, res = corpus.generate("Forgeries.tla", ["Session.tla"], txt)
    return [x for x in out if "forgery" in x], res, [x for x in out if "nearmac" in x]


def id_case(rec, cfg, agent, op, which):
    """an otherwise authentic reply (valid MAC, right security level) whose msgID / request-id is foreign: never accepted"""
    a = rec.n
    s = rawdrv.RawSession(rec, cfg)
    base = "1.3.6.1.2.1.2.2.1"
    if op == "get":
        w, _ = s.send("get", [base + ".1.0"])
    else:
        w, _ = s.send("getnext", [base])
    if w is not None:
        req = ag.Request(cfg, w)
        vbs = [(bytes(n) + (bytes([1]) if op == "getnext" else b""), ("int", 4242)) for n in req.names]
        other = ag.other_id({req.reqid, req.msgid})
        if which == "msgid":
            d = agent.reply(cfg, req, vbs, msgid=other)
        elif which == "reqid":
            d = agent.reply(cfg, req, vbs, reqid=other)
        elif which == "report-msgid":
            d = agent.report(cfg, req, msgid=other)
        else:
            d = agent.reply(cfg, req, vbs, msgid=other, reqid=ag.other_id({req.reqid, req.msgid, other}))
        s.inject(d)
        s.recv(op)
    s.close()
    return a, rec.n


def case(rec, cfg, agent, op, f, via="ctor", size=0):
    """via: "ctor" - the keys are given to the socket's constructor; "set_keys" - the socket is created key-less (as the clients do
    before engine discovery) and the keys are installed afterwards: whatever the receive path remembers about the session's security
    level must follow the installation"""
    a = rec.n
    if via == "set_keys":
        s = rawdrv.RawSession(rec, rawdrv.Cfg("v3", user="", engine=cfg.engine), api_cfg=cfg)
        s.set_keys(cfg)
    else:
        s = rawdrv.RawSession(rec, cfg)
    base = "1.3.6.1.2.1.2.2.1"
    if op == "get":
        w, _ = s.send("get", [base + ".1.0"])
    elif op == "get_many":
        w, _ = s.send("get_many", [base + ".1.0", base + ".2.0"])
    elif op == "getnext":
        w, _ = s.send("getnext", [base])
    else:
        w, _ = s.send("getbulk", [base], maxrep=4)
    if w is not None:
        req = ag.Request(cfg, w)
        vbs = [(bytes(n) + (bytes([1]) if op in ("getnext", "getbulk") else b""), ("int", 4242) if not size else ("octets", b"F" * size)) for n in req.names]
        kw = dict(mac=f["mac"] if isinstance(f["mac"], dict) else {"valid": "valid", "zero": "zero", "random": "random", "flipped": "flip", "absent": "absent"}[f["mac"]],
                  flag_auth=f["flagAuth"], enc={"ok": "ok", "plain": "plain", "bad": "badkey"}[f["enc"]])
        if f["pdu"] == "report":
            d = agent.reply(cfg, req, [([1, 3, 6, 1, 6, 3, 15, 1, 1, 5, 0], ("counter32", 3))], ptype="report", **kw)
        else:
            d = agent.reply(cfg, req, vbs, **kw)
        s.inject(d)
        s.recv(op)
    s.close()
    return a, rec.n


def run(tier):
    chk = Check("C10", tier)
    thorough = tier == "thorough"
    chk.rule = ("every cell of the forgery matrix (5 MAC kinds x auth flag x 3 msgData forms x {Response, Report}) as the only reply to a pending "
                "get/get_many/getnext/getbulk, for {MD5, SHA-1} x {none, DES, AES}; distinct = (config, op, cell); non-trivial = cell differs from the authentic reply")
    for cn in (["v3-md5", "v3-sha1-aes"] if not thorough else CFGS):
        res = sesscheck.mc_session(chk, cn, 2, 2, 3 if not thorough else 4, sec=True)
        tlc.require_ok(res, "MC_Session(sec) " + cn)
        chk.add_tlc(res, "MC_Session with forged-security mutants %s" % cn)
    # the deviation constant reproduces the pinned behaviour: TLC must find the counterexample (non-vacuity)
    dres = sesscheck.mc_session(chk, "v3-md5", 1, 1, 1, sec=True, dev=True)
    if dres.ok or "AcceptOnlyAuthenticated" not in (dres.violation or ""):
        raise ToolError("DEV_NoIncomingMacCheck did not produce the expected counterexample: %s" % dres.violation)
    chk.extra["deviation_counterexample"] = "DEV_NoIncomingMacCheck=TRUE violates AcceptOnlyAuthenticated (as at the pinned commit)"
    std = scripts.std_cfgs()
    rec = trace.Recorder("c10")
    agent = ag.Agent()
    runs = []
    for cn in CFGS:
        cells, res, near = matrix(cn)
        if res:
            chk.add_tlc(res, "Forgeries.tla %s" % cn)
        if len(cells) != 60:
            raise ToolError("forgery matrix incomplete: %d" % len(cells))
        for ci, c in enumerate(cells):
            f = c["forgery"]
            ops = ["get", "get_many", "getnext", "getbulk"] if thorough else [["get", "get_many", "getnext", "getbulk"][(ci + SEED) % 4], "get"]
            for oi, op in enumerate(dict.fromkeys(ops)):
                via = "set_keys" if (ci + oi + SEED) % 3 == 0 else "ctor"
                a, b = case(rec, std[cn], agent, op, f, via)
                authentic = f["mac"] == "valid" and f["flagAuth"] and f["enc"] == ("ok" if std[cn].priv != "none" else "plain")
                runs.append((a, b, dict(cfg=cn, op=op, forgery=f, verdict=c["verdict"], via=via)))
                chk.case((cn, op, via, json.dumps(f, sort_keys=True)), nontrivial=not authentic)
        # the same cells in LARGE replies (2049 .. 4000 octets: above the msgMaxSize the client announces, below what a receive takes):
        # the verdict on a MAC does not depend on the size of the message it protects
        for ci, c in enumerate(cells):
            f = c["forgery"]
            if f["pdu"] != "response" or (not thorough and (ci + SEED) % 2 and f["mac"] not in ("zero", "valid")):
                continue
            size = [2020, 2900, 3900][(ci + SEED) % 3]
            op = ["get", "getnext"][ci % 2]
            a, b = case(rec, std[cn], agent, op, f, "ctor", size=size)
            runs.append((a, b, dict(cfg=cn, op=op, forgery=f, verdict=c["verdict"], via="ctor", size=size)))
            chk.case((cn, op, "large", size, json.dumps(f, sort_keys=True)), nontrivial=True)
        # near-miss MACs (otherwise authentic Response): 12 single bits, 66 xor-cancelling pairs, 66 sum-cancelling pairs, rotations, partial MACs
        if len(near) != 12 + 66 + 66 + 4 + 11 + 1 + 11 + 11 + 11 + 3:
            raise ToolError("near-miss MAC family incomplete: %d" % len(near))
        for ni, c in enumerate(near):
            if not thorough and c["nearmac"]["kind"] in ("pair", "sum") and (ni + SEED) % 2 and (c["nearmac"]["j"] - c["nearmac"]["i"]) % 4:
                continue           # quick: every pair at word distance, every other one elsewhere
            f = dict(mac=c["nearmac"], flagAuth=True, enc="ok" if std[cn].priv != "none" else "plain", pdu="response")
            for op in (["get", "getnext"] if thorough else [["get", "get_many", "getnext", "getbulk"][(ni + SEED) % 4]]):
                a, b = case(rec, std[cn], agent, op, f)
                runs.append((a, b, dict(cfg=cn, op=op, forgery=f, verdict=c["verdict"])))
                chk.case((cn, op, json.dumps(f, sort_keys=True)))
        for which in ("msgid", "reqid", "report-msgid", "both"):
            for op in ("get", "getnext"):
                a, b = id_case(rec, std[cn], agent, op, which)
                runs.append((a, b, dict(cfg=cn, op=op, forgery=dict(mac="valid", flagAuth=True, enc="ok" if std[cn].priv != "none" else "plain",
                                                                     pdu="report" if which.startswith("report") else "response", ids=which), verdict="drop")))
                chk.case((cn, op, "ids", which))
    # histories through the public API: a session configured with an auth user must still BE that user after failed / retried
    # discovery - otherwise every unauthenticated reply is acceptable to it (the socket holds no key at all)
    from checks import c13
    nraw = len(runs)
    runs += c13.lost_discovery_histories(rec, [("md5", "none", "password"), ("sha1", "aes", "password"), ("md5", "des", "master"), ("sha1", "none", "localized")], thorough)
    for a, b, info in runs[nraw:]:
        chk.case(("api-history", info["kind"], info["auth"], info["priv"], json.dumps(info["calls"]), json.dumps(info["plan"])))
    rec.close()
    print("  %d cases (%d API histories with lost discovery datagrams), %d events" % (len(runs), len(runs) - nraw, rec.n), flush=True)
    v = trace.validate_parallel("TraceSession.tla", "TraceSession.cfg", rec.events, [(a, b) for a, b, _ in runs], k=12, name="c10")
    for i, r in enumerate(v["results"]):
        chk.add_tlc(r, "TraceSession(c10)#%d" % i)
    chk.traces += len(runs)
    ri = 0
    for idx in v["fails"]:
        while runs[ri][1] <= idx:
            ri += 1
        a, b, info = runs[ri]
        ev = rec.events[idx]
        if info.get("api_history"):
            chk.violation(dict(kind="api-history", client=info["kind"], ev=ev["ev"], op=ev.get("op"), got=ev.get("exc") or "ok"),
                          "%s session configured with auth=%s priv=%s, calls %s with datagrams %s lost: %s (%s) %s - the session no longer acts as the configured user" %
                          (info["kind"], info["auth"], info["priv"], info["calls"], [k for k, p in enumerate(info["plan"]) if p == "drop"], ev["ev"], ev.get("op"), ev.get("exc") or ""),
                          dict(info=info), confirm=(confirm_by_replay(c13.replay, dict(info=info)) if timing_event(ev) else None))
            continue
        f = info["forgery"]
        has_priv = std[info["cfg"]].priv != "none"
        if "ids" in f:
            chk.violation(dict(kind="foreign-ids", ids=f["ids"], got="value" if not ev.get("exc") else ev["exc"]),
                          "%s %s: authentic-looking reply with foreign %s was not skipped: call returned %s" % (info["cfg"], info["op"], f["ids"], ev.get("exc") or "the value"), dict(info=info))
            continue
        sig = dict(body=f["pdu"], mac=f["mac"] if not isinstance(f["mac"], dict) else "near:" + f["mac"]["kind"], flagAuth=f["flagAuth"], clear_under_priv=bool(has_priv and f["enc"] == "plain"),
                   undecryptable=f["enc"] == "bad", required=info["verdict"], got="value" if not ev.get("exc") else ev["exc"])
        sig["via"] = info.get("via", "ctor")
        chk.violation(sig, "%s %s (keys installed via %s): reply with mac=%s flagAuth=%s msgData=%s body=%s must be %s; call returned %s" % (info["cfg"], info["op"], sig["via"], f["mac"], f["flagAuth"], f["enc"], f["pdu"],
                      "dropped" if info["verdict"] == "drop" else "delivered", ev.get("exc") or "the forged value"), dict(info=info))
    chk.sample(dict(kind="matrix-cell", cell=runs[7][2]))
    return chk.finish()


def replay(path):
    d = json.load(open(path))
    info = d["replay"]["info"]
    if info.get("api_history"):
        from checks import c13
        rc = c13.replay(path)
        if rc == 1:
            print("VIOLATION property=C10 replay=%s" % path)
        return rc
    rec = trace.Recorder("c10-replay")
    case(rec, scripts.std_cfgs()[info["cfg"]], ag.Agent(), info["op"], info["forgery"], info.get("via", "ctor"), size=info.get("size", 0))
    v = trace.validate("TraceSession.tla", "TraceSession.cfg", rec.close())
    if v["accepted"] and not v["fails"]:
        print("replay: accepted")
        return 0
    print("VIOLATION property=C10 replay=%s" % path)
    return 1
