"""C12 - USM keys are derived exactly as RFC 3414 A.2 prescribes; bad key material is refused, never a crash.

KeySetup.tla (TLC) is the dispatch specification: which derivation applies to which (algorithm code, key type,
key length) and what must be refused; MC_KeySetup.tla enumerates the table (18 codes x 11 key lengths, for the
authentication and the privacy key).  Every entry is replayed on the real SnmpV3ClientSocket constructor and on
set_keys(); get_master_key / get_localized_key are called over password length classes {1,2,3,5,8,1000,2^20-1,
2^20,2^20+1,0} and engine ids of 0..32 octets for both digests; TraceKeys.tla judges refusal vs acceptance (an
Exception of a documented class, never a PanicException) and that the returned octets equal the uninterpreted
terms Kmaster / Kul as interpreted by hashlib.  The key ACTUALLY installed is observed through the next emitted
message: TraceSession.tla (C09 / C11 conjuncts) requires its MAC and ciphertext to verify under the key the
specification derives for (key type, key material, engine id), for password, master and localized keys and the
Python User / Md5Key / Sha1Key padding."""
import json, random, hashlib
from vlib import env, tlc, trace, corpus, rawdrv, agent as ag, scripts, sesscheck, refcrypto as rx
from vlib.report import Check
from vlib.project import exc_info
from vlib.env import ToolError, SEED

ALGN = {1: "md5", 2: "sha1"}


def keybytes(n, salt):
    return bytes((i * 7 + salt) % 251 + 1 for i in range(n))


def install_event(via, acode, alen, pcode, plen, engine):
    from gufo.snmp import _fast
    ak, pk = keybytes(alen, acode), keybytes(plen, pcode + 3)
    exc, bases, isexc = "", [], True
    try:
        if via == "ctor":
            _fast.SnmpV3ClientSocket("127.0.0.1:9", engine, "user", acode, ak, pcode, pk, 0, 0, 0, 0)
        else:
            s = _fast.SnmpV3ClientSocket("127.0.0.1:9", engine, "", 0, b"", 0, b"", 0, 0, 0, 0)
            s.set_keys("user", acode, ak, pcode, pk)
    except BaseException as e:  # noqa - a panic is data
        exc, bases, isexc = exc_info(e)
    return dict(ev="Install", via=via, acode=acode, akeylen=alen, pcode=pcode, pkeylen=plen, exc=exc, bases=bases, isexc=isexc)


def pw_of(pat, n):
    if not pat:
        return b""
    return (bytes(pat) * (n // len(pat) + 1))[:n]


def util_events(rng, thorough):
    from gufo.snmp import _fast
    out = []
    lens = [0, 1, 2, 3, 5, 6, 7, 8, 12, 16, 31, 32, 33, 64, 100, 1000, 1024, 1025, 65536, 2 ** 19, 2 ** 19 + 1, 2 ** 20 - 1, 2 ** 20, 2 ** 20 + 1] + ([4096, 2 ** 20 + 7, 2 ** 21, 3 * 2 ** 20 + 5] if thorough else [])
    pats = [[97], [109, 97, 112, 108, 101, 115, 121, 114, 117, 112], [0, 255, 1]]
    for alg in (1, 2, 0, 3, 65):
        for n in lens:
            for pat in (pats if thorough else pats[:2]):
                pw = pw_of(pat, n)
                exc, bases, isexc, res = "", [], True, b""
                try:
                    res = _fast.get_master_key(alg, pw)
                except BaseException as e:  # noqa
                    exc, bases, isexc = exc_info(e)
                interp = []
                if alg % 64 in ALGN and n > 0:
                    interp.append(dict(f="kmaster", alg=alg % 64, pat=pat, n=n, out=list(rx.password_to_master(ALGN[alg % 64], pw))))
                out.append(dict(ev="Master", alg=alg, pat=pat, pwlen=n, exc=exc, bases=bases, isexc=isexc, out=list(res), interp=interp))
    # the same password expanded under alternating digests, back to back (nothing may be remembered across digests)
    for pat, n in (([109, 97, 112, 108, 101, 115, 121, 114, 117, 112], 10), ([97], 8), ([0, 255, 1], 33), ([120], 1024)):
        pw = pw_of(pat, n)
        for alg in (2, 1, 2, 1, 1, 2, 65, 2, 1):
            exc, bases, isexc, res = "", [], True, b""
            try:
                res = _fast.get_master_key(alg, pw)
            except BaseException as e:  # noqa
                exc, bases, isexc = exc_info(e)
            out.append(dict(ev="Master", alg=alg, pat=pat, pwlen=n, exc=exc, bases=bases, isexc=isexc, out=list(res),
                            interp=[dict(f="kmaster", alg=alg % 64, pat=pat, n=n, out=list(rx.password_to_master(ALGN[alg % 64], pw)))]))
    for alg in (1, 2, 0, 7):
        for mlen in (0, 1, 15, 16, 17, 19, 20, 21, 32):
            for elen in ([0, 5, 17, 32] if not thorough else list(range(0, 33))):
                master, engine = keybytes(mlen, alg + elen), keybytes(elen, 9)
                exc, bases, isexc, res = "", [], True, b""
                try:
                    res = _fast.get_localized_key(alg, master, engine)
                except BaseException as e:  # noqa
                    exc, bases, isexc = exc_info(e)
                interp = []
                if alg % 64 in ALGN:
                    interp.append(dict(f="kul", alg=alg % 64, master=list(master), engine=list(engine), out=list(rx.localize(ALGN[alg % 64], master, engine))))
                out.append(dict(ev="Localize", alg=alg, master=list(master), engine=list(engine), exc=exc, bases=bases, isexc=isexc, out=list(res), interp=interp))
    # RFC 3414 A.3 vectors + random passwords / engine ids
    for i in range(200 if not thorough else 1000):
        alg = 1 + i % 2
        pat = [rng.randrange(256) for _ in range(rng.randrange(1, 40))]
        n = len(pat)
        pw = bytes(pat)
        exc, bases, isexc, res = "", [], True, b""
        try:
            res = _fast.get_master_key(alg, pw)
        except BaseException as e:  # noqa
            exc, bases, isexc = exc_info(e)
        out.append(dict(ev="Master", alg=alg, pat=pat, pwlen=n, exc=exc, bases=bases, isexc=isexc, out=list(res),
                        interp=[dict(f="kmaster", alg=alg, pat=pat, n=n, out=list(rx.password_to_master(ALGN[alg], pw)))]))
        engine = bytes(rng.randrange(256) for _ in range(rng.randrange(0, 33)))
        master = bytes(res) if res else rx.password_to_master(ALGN[alg], pw)
        exc, bases, isexc, loc = "", [], True, b""
        try:
            loc = _fast.get_localized_key(alg, master, engine)
        except BaseException as e:  # noqa
            exc, bases, isexc = exc_info(e)
        out.append(dict(ev="Localize", alg=alg, master=list(master), engine=list(engine), exc=exc, bases=bases, isexc=isexc, out=list(loc),
                        interp=[dict(f="kul", alg=alg, master=list(master), engine=list(engine), out=list(rx.localize(ALGN[alg], master, engine)))]))
    return out


def python_layer_events():
    """User / Md5Key / Sha1Key padding: whatever length the caller gives for master / localized keys, the session must install"""
    from gufo.snmp.user import User, Md5Key, Sha1Key, DesKey, Aes128Key, KeyType
    from gufo.snmp import _fast
    out = []
    for K, alg in ((Md5Key, 1), (Sha1Key, 2)):
        for kt in (KeyType.Master, KeyType.Localized, KeyType.Password):
            for n in (0, 1, 8, 15, 16, 17, 20, 24, 40):
                for P in (None, DesKey, Aes128Key):
                    for pn in ((0, 1, 16, 20, 33) if P else (0,)):
                        # what the Python layer makes of the key material before it reaches the socket
                        ktn = {KeyType.Password: 0, KeyType.Master: 1, KeyType.Localized: 2}[kt]
                        ue = dict(ev="UserKeys", aalg=alg, kt=ktn, akey=list(keybytes(n, 1)), pcipher=0 if P is None else (1 if P is DesKey else 2),
                                  pkey=list(keybytes(pn, 2)) if P else [], outa=[], outp=[], exc="", bases=[], isexc=True)
                        try:
                            u0 = User("u", auth_key=K(keybytes(n, 1), key_type=kt), priv_key=P(keybytes(pn, 2), key_type=kt) if P else None)
                            ue["outa"], ue["outp"] = list(u0.get_auth_key()), list(u0.get_priv_key()) if P else []
                            ue["aalg_out"], ue["palg_out"] = u0.get_auth_alg() & 63, u0.get_priv_alg() & 63
                        except BaseException as e:  # noqa
                            ue["exc"], ue["bases"], ue["isexc"] = exc_info(e)
                        out.append(ue)
                        exc, bases, isexc = "", [], True
                        acode = pcode = alen = plen = 0
                        try:
                            u = User("u", auth_key=K(keybytes(n, 1), key_type=kt), priv_key=P(keybytes(pn, 2), key_type=kt) if P else None)
                            acode, pcode, alen, plen = u.get_auth_alg(), u.get_priv_alg(), len(u.get_auth_key()), len(u.get_priv_key())
                            _fast.SnmpV3ClientSocket("127.0.0.1:9", b"\x80\x00\x00\x01\x02", u.name, acode, u.get_auth_key(), pcode, u.get_priv_key(), 0, 0, 0, 0)
                        except BaseException as e:  # noqa
                            exc, bases, isexc = exc_info(e)
                        out.append(dict(ev="Install", via="User", acode=acode, akeylen=alen, pcode=pcode, pkeylen=plen, exc=exc, bases=bases, isexc=isexc))
    # key material is opaque whatever its first and last octets are: line breaks, blanks, NULs at either end (keys read from files /
    # the environment end that way - and digests end in 0x0a once in 256): password, master and localized keys of exactly the digest
    # length must reach the socket octet for octet
    ends = [b"\n", b"\r\n", b"\r", b" ", b"\t", b"\x00", b"\x0b", b"\x0c", b"\n\n", b"=", b"\xa0", b"\x85"]
    for K, alg in ((Md5Key, 1), (Sha1Key, 2)):
        klen = 16 if alg == 1 else 20
        for kt in (KeyType.Master, KeyType.Localized, KeyType.Password):
            ktn = {KeyType.Password: 0, KeyType.Master: 1, KeyType.Localized: 2}[kt]
            for ei, tail in enumerate(ends):
                for where in ("tail", "head", "both"):
                    body = keybytes(klen, 3 + ei)
                    body = bytes(b if b not in (9, 10, 11, 12, 13, 32, 0) else 0x41 for b in body)
                    if where == "tail":
                        key = body[:klen - len(tail)] + tail
                    elif where == "head":
                        key = tail + body[len(tail):]
                    else:
                        key = tail + body[len(tail):klen - len(tail)] + tail
                    for P in (None, Aes128Key, DesKey):
                        ue = dict(ev="UserKeys", aalg=alg, kt=ktn, akey=list(key), pcipher=0 if P is None else (1 if P is DesKey else 2), pkey=list(key[::-1]) if P else [],
                                  outa=[], outp=[], exc="", bases=[], isexc=True)
                        try:
                            u0 = User("u", auth_key=K(key, key_type=kt), priv_key=P(key[::-1], key_type=kt) if P else None)
                            ue["outa"], ue["outp"] = list(u0.get_auth_key()), list(u0.get_priv_key()) if P else []
                        except BaseException as e:  # noqa
                            ue["exc"], ue["bases"], ue["isexc"] = exc_info(e)
                        out.append(ue)
    # passwords are opaque octet strings, whatever they look like
    from checks import c13
    for pw in c13.SHAPED_PASSWORDS:
        for K, alg in ((Md5Key, 1), (Sha1Key, 2)):
            for P in (None, Aes128Key, DesKey):
                ue = dict(ev="UserKeys", aalg=alg, kt=0, akey=list(pw), pcipher=0 if P is None else (1 if P is DesKey else 2), pkey=list(pw[::-1]) if P else [],
                          outa=[], outp=[], exc="", bases=[], isexc=True)
                try:
                    u0 = User("u", auth_key=K(pw), priv_key=P(pw[::-1]) if P else None)
                    ue["outa"], ue["outp"] = list(u0.get_auth_key()), list(u0.get_priv_key()) if P else []
                except BaseException as e:  # noqa
                    ue["exc"], ue["bases"], ue["isexc"] = exc_info(e)
                out.append(ue)
    return out


def run(tier):
    chk = Check("C12", tier)
    thorough = tier == "thorough"
    rng = random.Random(SEED)
    chk.rule = ("dispatch table of MC_KeySetup.tla (18 algorithm codes x 11 key lengths, auth x priv) on the constructor and set_keys; utility functions over "
                "password length classes x engine id lengths x {MD5, SHA-1, invalid codes}; Python User/Md5Key/Sha1Key padding; installed key observed via MAC / "
                "ciphertext of the next message; distinct = table entry / call; non-trivial = entry with a key-bearing algorithm")
    table, res = corpus.generate("MC_KeySetup.tla", ["KeySetup.tla"])
    if res:
        chk.add_tlc(res, "MC_KeySetup.tla")
    entries = [t for t in table if "verdict" in t]
    if len(entries) < 39000:
        raise ToolError("dispatch table incomplete")
    rec = trace.Recorder("c12")
    eng = b"\x80\x00\x1f\x88\x80\x0a\x0b\x0c"
    batches = []
    a = rec.n
    for i, t in enumerate(entries):
        pw_heavy = (t["acode"] // 64 == 0 and t["acode"] % 64 in (1, 2) and t["akeylen"] > 0)
        keep = thorough or (i + SEED) % (23 if pw_heavy else 7) == 0 or t["verdict"] != "accept" and (i + SEED) % 5 == 0
        if not keep:
            continue
        via = "ctor" if i % 2 == 0 else "set_keys"
        rec.emit(install_event(via, t["acode"], t["akeylen"], t["pcode"], t["pkeylen"], eng if i % 3 else b""))
        chk.case(("install", via, t["acode"], t["akeylen"], t["pcode"], t["pkeylen"]), nontrivial=t["acode"] % 64 in (1, 2))
        if rec.n - a >= 800:
            batches.append((a, rec.n))
            a = rec.n
    for e in util_events(rng, thorough) + python_layer_events():
        rec.emit(e)
        chk.case((e["ev"], json.dumps({k: v for k, v in e.items() if k not in ("interp", "out")}, sort_keys=True)[:200]))
        if rec.n - a >= 800:
            batches.append((a, rec.n))
            a = rec.n
    if rec.n > a:
        batches.append((a, rec.n))
    rec.close()
    print("  %d key-setup events" % rec.n, flush=True)
    v = trace.validate_parallel("TraceKeys.tla", "TraceKeys.cfg", rec.events, batches, k=12, name="c12")
    for i, r in enumerate(v["results"]):
        chk.add_tlc(r, "TraceKeys#%d" % i)
    chk.traces += len(batches)
    for idx in v["fails"]:
        e = rec.events[idx]
        if e["ev"] == "Install":
            sig = dict(ev="Install", akt=e["acode"] // 64, aalg=e["acode"] % 64 if e["acode"] % 64 < 3 else "other", akeylen_ok=e["akeylen"] in (16, 20), empty=e["akeylen"] == 0,
                       pkt=e["pcode"] // 64, palg=e["pcode"] % 64 if e["pcode"] % 64 < 3 else "other", got=e["exc"] or "accepted")
            chk.violation(sig, "%s(auth code %d, %d octets; priv code %d, %d octets): %s" % (e["via"], e["acode"], e["akeylen"], e["pcode"], e["pkeylen"], e["exc"] or "accepted"),
                          dict(event={k: v_ for k, v_ in e.items()}))
        elif e["ev"] == "UserKeys":
            sig = dict(ev="UserKeys", aalg=e["aalg"], kt=e["kt"], pcipher=e["pcipher"], got=e["exc"] or "keys")
            chk.violation(sig, "User(auth %s key of %d octets, key type %d%s): handed to the socket: auth key %d octets, privacy key %d octets (%s)" %
                          ({1: "MD5", 2: "SHA-1"}[e["aalg"]], len(e["akey"]), e["kt"], (", privacy key of %d octets" % len(e["pkey"])) if e["pcipher"] else "",
                           len(e["outa"]), len(e["outp"]), e["exc"] or "key material of the digest's length must pass unchanged"),
                          dict(event={k: v_ for k, v_ in e.items()}))
        else:
            sig = dict(ev=e["ev"], alg=e["alg"], empty=(e.get("pwlen", 1) == 0), got=e["exc"] or "value")
            chk.violation(sig, "%s alg=%d %s: %s" % (e["ev"], e["alg"], "pwlen=%d" % e["pwlen"] if e["ev"] == "Master" else "master %d octets" % len(e["master"]), e["exc"] or "wrong octets"),
                          dict(event={k: v_ for k, v_ in e.items() if k != "interp"}))
    # the key actually installed: MAC / ciphertext of the next message under the key the specification derives
    rec2 = trace.Recorder("c12-installed")
    runs = []
    agent = ag.Agent()
    i = 0
    for alg in ("md5", "sha1"):
        ks = 16 if alg == "md5" else 20
        for kt in ("password", "master", "localized"):
            for klen in ([1, 8, 40] if kt == "password" else ([ks] if kt == "localized" else [ks, 5, 33])):
                for priv in ("none", "des", "aes"):
                    for elen in (5, 12, 32):
                        i += 1
                        if not thorough and (i + SEED) % 3:
                            continue
                        engine = bytes([0x80, 0, 0, 9] + [(j * 3 + i) % 256 for j in range(elen - 4)])
                        # key material is shared between sessions of different digests / ciphers (same process): a key derived for
                        # one session must not leak into another
                        cfg = rawdrv.Cfg("v3", user="k%d" % i, engine=engine, auth=alg, akt=kt, akm=keybytes(klen, klen), priv=priv, pkt=kt,
                                         pkm=keybytes(klen if kt != "localized" else ks, klen + 1) if priv != "none" else b"")
                        a = rec2.n
                        try:
                            s = rawdrv.RawSession(rec2, cfg)
                        except BaseException as e:  # noqa
                            continue
                        w, exc = s.send("get", ["1.3.6.1.2.1.1.3.0"])
                        if w is not None:
                            req = ag.Request(cfg, w)
                            ag2 = ag.Agent(engine=engine)
                            s.inject(ag2.reply(cfg, req, [(bytes(req.names[0]), ("timeticks", 12345))] if req.names else []))
                            s.recv("get")
                        s.close()
                        runs.append((a, rec2.n, dict(alg=alg, kt=kt, klen=klen, priv=priv, elen=elen)))
                        chk.case(("installed", alg, kt, klen, priv, elen))
    rec2.close()
    v2 = trace.validate_parallel("TraceSession.tla", "TraceSession.cfg", rec2.events, [(a, b) for a, b, _ in runs], k=8, name="c12i")
    for j, r in enumerate(v2["results"]):
        chk.add_tlc(r, "TraceSession(c12 installed keys)#%d" % j)
    chk.traces += len(runs)
    ri = 0
    for idx in v2["fails"]:
        while runs[ri][1] <= idx:
            ri += 1
        info = runs[ri][2]
        ev = rec2.events[idx]
        chk.violation(dict(ev="installed-key", **{k: info[k] for k in ("alg", "kt", "priv")}), "session with %s: %s %s" % (json.dumps(info), ev["ev"], ev.get("exc") or "MAC/ciphertext not under the derived key"), dict(info=info))
    chk.sample(dict(kind="dispatch-entry", entry=entries[12345]))
    chk.sample(dict(kind="util-event", event={k: v_ for k, v_ in rec.events[-1].items() if k != "interp"}))
    chk.assumptions += ["bit-exactness of MD5 / SHA-1 over the 1 MiB expansion is a comparison with hashlib on the explored inputs (the digests are uninterpreted in the specification)"]
    return chk.finish()


def replay(path):
    d = json.load(open(path))
    e = d["replay"].get("event")
    if not e:
        print(json.dumps(d["replay"]))
        return 1
    rec = trace.Recorder("c12-replay")
    if e["ev"] == "Install" and e["via"] in ("ctor", "set_keys"):
        rec.emit(install_event(e["via"], e["acode"], e["akeylen"], e["pcode"], e["pkeylen"], b"\x80\x00\x1f\x88\x80\x0a\x0b\x0c"))
    else:
        print(json.dumps(e)[:500])
        return 1
    v = trace.validate("TraceKeys.tla", "TraceKeys.cfg", rec.close())
    if v["accepted"] and not v["fails"]:
        print("replay: accepted")
        return 0
    print("VIOLATION property=C12 replay=%s" % path)
    return 1
