"""C02 - response values reach the caller exactly as the agent encoded them.

Values.tla (TLC) enumerates boundary encodings of every value type and boundary OID names; each is carried in
replies at every position, through get / get_many / getnext / getbulk, over v1 / v2c / v3 (plain, auth, DES,
AES); seeded random values over the full ranges are added; a sample goes through the public sync / async API.  TraceSession.tla decodes the logged reply octets
and requires result = PyValue(Denote(varbind)) and key = OidToText(name)."""
import json, random, struct
from vlib import env, tlc, trace, corpus, rawdrv, agent as ag, refcodec as rc, scripts, sesscheck, apiscripts
from vlib.report import Check, confirm_by_replay, timing_event
from vlib.env import ToolError, SEED

BASE = [1, 3, 6, 1, 4, 1, 9999]
BASE_TXT = "1.3.6.1.4.1.9999"


def value_sig(vt, tlv):
    t = bytes(tlv)
    try:
        tag, cs, n, nx = rc.rd_tlv(t, 0)
    except Exception:
        return dict(vt=vt, form="?")
    c = t[cs:cs + n]
    form = "len=%d" % n
    if vt == "int":
        form = "len=%d%s" % (n, ",neg" if c and c[0] >= 128 else "")
    if vt == "real":
        if not c:
            form = "empty"
        elif c[0] >= 128:
            form = "binary"
        elif c[0] < 64:
            form = "decimal"
        else:
            form = "special"
    if vt in ("octets", "opaque", "objdesc"):
        form = "len"
    if vt == "oid":
        form = "oid"
    return dict(vt=vt, form=form)


def one_case(rec, cfg, agent, op, varbinds, k, sid=1, form=None):
    """Open; send op; inject a matching reply with `varbinds`; recv; close. Returns (first, end) event range."""
    first = rec.n
    s = rawdrv.RawSession(rec, cfg, sid=sid)
    if op == "get":
        w, exc = s.send("get", [BASE_TXT + ".1.0"])
    elif op == "get_many":
        w, exc = s.send("get_many", [BASE_TXT + ".1.0", BASE_TXT + ".2.0"])
    elif op == "getnext":
        w, exc = s.send("getnext", [BASE_TXT])
    else:
        w, exc = s.send("getbulk", [BASE_TXT], maxrep=10)
    if w is not None:
        req = ag.Request(cfg, w)
        d = agent.reply(cfg, req, varbinds, form=form)
        interp = rawdrv.real_entries([rc.enc_value(v) for _, v in varbinds])
        s.inject(d)
        s.recv(op, interp=interp)
    s.close()
    return first, rec.n


def layouts(op, val, k, names):
    """varbind lists that carry `val` at different positions for operation op"""
    n1, n2, n3 = BASE + [1, k % 1000], BASE + [2, k % 1000], BASE + [3, k % 1000]
    filler1, filler2 = ("int", 42), ("octets", b"x")
    nm = names[k % len(names)] if names else None
    if op == "get":
        return [[(n1, val)]]
    if op == "getnext":
        return [[(n1, val)]]
    if op == "get_many":
        out = [[(n1, val), (n2, filler1), (n3, filler2)], [(n1, filler1), (n2, val), (n3, filler2)], [(n1, filler1), (n2, filler2), (n3, val)]]
        return [out[k % 3]]
    out = [[(n1, val), (n2, filler1), (n3, filler2)], [(n1, filler1), (n2, val), (n3, filler2)], [(n1, filler1), (n2, filler2), (n3, val)]]
    return [out[(k + 1) % 3]]


def random_value(rng):
    c = rng.randrange(12)
    if c == 0:
        return ("int", rng.choice([rng.randrange(-2 ** 63, 2 ** 63), rng.randrange(-2 ** 31, 2 ** 31), -2 ** 63, 2 ** 63 - 1,
                                   rng.choice([-1, 1]) * 2 ** rng.randrange(0, 63) + rng.randrange(-2, 3)]))
    if c == 1:
        return (rng.choice(["counter32", "gauge32", "timeticks", "uinteger32"]), rng.choice([rng.randrange(2 ** 32), 2 ** 32 - 1, 2 ** 31, 2 ** 31 - 1, 0]))
    if c == 2:
        return ("counter64", rng.choice([rng.randrange(2 ** 64), 2 ** 64 - 1, 2 ** 63, 2 ** 63 - 1, 2 ** 32]))
    if c == 3:
        return (rng.choice(["octets", "opaque", "objdesc"]), bytes(rng.randrange(256) for _ in range(rng.choice([0, 1, 5, 127, 128, 300]))))
    if c == 4:
        return ("ip", bytes(rng.randrange(256) for _ in range(4)))
    if c == 5:
        arcs = [rng.randrange(3)]
        arcs.append(rng.randrange(40))
        arcs += [rng.choice([rng.randrange(2 ** 32), rng.randrange(200), 2 ** 32 - 1, 16383, 16384]) for _ in range(rng.randrange(0, 12))]
        return ("oid", arcs)
    if c == 6:
        return ("bool", rng.random() < 0.5)
    if c == 7:
        return ("null",)
    if c == 8:
        # binary REAL from a random double: mantissa/exponent base 2
        x = struct.unpack(">d", struct.pack(">Q", rng.randrange(2 ** 64)))[0]
        pick = rng.randrange(6)
        if pick == 0:
            x = struct.unpack(">d", struct.pack(">Q", rng.randrange(1, 2 ** 52) | (rng.randrange(2) << 63)))[0]            # subnormal
        elif pick == 1:
            x = struct.unpack(">d", struct.pack(">Q", (rng.choice([1, 2, 3, 2045, 2046]) << 52) | rng.randrange(2 ** 52)))[0]   # smallest / largest normal binades
        if x != x or x in (float("inf"), float("-inf")) or x == 0:
            return ("real", b"\x40")
        m, e = abs(x).hex(), 0
        mant, exp = float.fromhex(m).as_integer_ratio(), 0
        num, den = abs(x).as_integer_ratio()
        e2 = 0
        while den > 1:
            den //= 2
            e2 -= 1
        while num % 2 == 0 and num:
            num //= 2
            e2 += 1
        if rng.randrange(3) == 0:
            # a mantissa wider than the minimal one (X.690 8.5.7 lets the sender choose; encoders that always emit 53 bits, or 64): the
            # same number, more trailing zero bits in N and a smaller exponent
            k = rng.choice([1, 7, 8, 52 - min(52, num.bit_length()) if num.bit_length() < 52 else 3, 11, 40, 63])
            num <<= max(k, 0)
            e2 -= max(k, 0)
        mb = num.to_bytes((num.bit_length() + 7) // 8, "big")
        form = rng.randrange(4)
        width = max(form + 1 if form < 3 else rng.choice([1, 2, 3, 4]), 1 if -128 <= e2 < 128 else 2)
        if form < 3 and width != form + 1:
            form = width - 1
        eb = e2.to_bytes(width, "big", signed=True)
        if form == 3:
            return ("real", bytes([0x80 | (0x40 if x < 0 else 0) | 3, width]) + eb + mb)
        return ("real", bytes([0x80 | (0x40 if x < 0 else 0) | form]) + eb + mb)
    if c == 9:
        return ("real", b"\x03" + ("%.6E" % rng.uniform(-1e6, 1e6)).encode())
    if c == 10:
        return ("real", b"\x02" + ("%.3f" % rng.uniform(-1000, 1000)).encode())
    return ("real", b"\x01" + str(rng.randrange(-10 ** 6, 10 ** 6)).encode())


def run(tier):
    chk = Check("C02", tier)
    thorough = tier == "thorough"
    rng = random.Random(SEED)
    chk.rule = ("every value TLV of the TLC-generated boundary corpus (Values.tla) and seeded random values over the full ranges, carried "
                "at first/middle/last position of replies to get/get_many/getnext/getbulk over v1/v2c/v3 carriers; distinct = (config, op, "
                "value TLV, layout); non-trivial = the value is Accept-class for the specification (well-formed)")
    vals, res = corpus.generate("Values.tla", ["BER.tla", "Octets.tla"])
    if res:
        chk.add_tlc(res, "Values.tla generator")
    cvals = [v for v in vals if "tlv" in v]
    names = [v["name"] for v in vals if "name" in v]
    if len(cvals) < 1000 or not names:
        raise ToolError("value corpus too small")
    std = scripts.std_cfgs()
    carriers = ["v2c", "v1", "v3-noauth", "v3-md5", "v3-md5-des", "v3-sha1-aes"]
    rec = trace.Recorder("c02")
    agent = ag.Agent()
    runs = []
    k = 0
    for ci, cn in enumerate(carriers):
        cfg = std[cn]
        ops = ["get", "get_many", "getnext"] + ([] if cfg.ver == "v1" else ["getbulk"])
        for vi, v in enumerate(cvals):
            full = thorough or cn == "v2c"
            if not full and (vi + ci + SEED) % 9 != 0:
                continue
            val = ("raw", bytes(v["tlv"]))
            for oi, op in enumerate(ops):
                if not thorough and cn != "v2c" and (vi + oi) % 2:
                    continue
                if not thorough and cn == "v2c" and op in ("getnext", "getbulk") and v["vt"] in ("octets", "opaque", "objdesc") and (vi % 3):
                    continue
                k += 1
                for lay in layouts(op, val, k, names):
                    a, b = one_case(rec, cfg, agent, op, lay, k)
                    runs.append((a, b, dict(cfg=cn, op=op, vt=v["vt"], tlv=v["tlv"], cls=v["cls"])))
                    chk.case((cn, op, bytes(v["tlv"]).hex(), k % 3), nontrivial=v["cls"] == 0)
    # boundary names as varbind names (key text fidelity), values int
    for ni, nm in enumerate(names):
        for cn in (["v2c"] if not thorough else carriers):
            k += 1
            a, b = one_case(rec, std[cn], agent, "get_many", [(bytes(nm), ("int", ni)), (BASE + [2, 0], ("int", 1))], k)
            runs.append((a, b, dict(cfg=cn, op="get_many", vt="name", tlv=nm, cls=0)))
            chk.case((cn, "name", bytes(nm).hex()))
    # table rows: consecutive names that differ in their last sub-identifier only, with last arcs on both sides of every
    # base-128 length step (the key handed to the caller is the text of each name, whatever its neighbours were)
    for start in (1, 126, 127, 200, 1000, 16382, 16383, 2097150, 268435454, 4294967290):
        for cn in (["v2c", "v3-sha1-aes"] if not thorough else carriers):
            if std[cn].ver == "v1":
                continue
            k += 1
            lay = [(BASE + [4, 2, start + j], random_value(rng) if j % 2 else ("int", start + j)) for j in range(6)]
            a, b = one_case(rec, std[cn], agent, "getbulk", lay, k)
            runs.append((a, b, dict(cfg=cn, op="getbulk", vt="rows%d" % start, tlv=[], cls=-1)))
            chk.case((cn, "rows", start))
    # long-form lengths at EVERY level of the reply (message, PDU, varbind list, varbinds, names, values), minimal or with redundant
    # leading length octets (1..4 length octets: X.690 8.1.3.5 lets the sender choose) - a receiver takes them all
    reps = [("int", -129), ("int", 2 ** 40), ("octets", b"hello"), ("octets", b"x" * 200), ("counter64", 2 ** 63 + 7), ("oid", [1, 3, 6, 1, 4, 1, 16384, 7]),
            ("ip", bytes([10, 0, 105, 200])), ("timeticks", 400000000), ("null",), ("real", b"\x80\x00\x03"), ("gauge32", 2 ** 32 - 1), ("bool", True)]
    for fi, form in enumerate(("long1", "long2", "long3", "long4")):
        for vi, val in enumerate(reps):
            for cn in (["v2c", "v3-sha1-aes", "v1"] if not thorough else carriers):
                ops_ = ["get", "get_many", "getnext"] + ([] if std[cn].ver == "v1" else ["getbulk"])
                op = ops_[(vi + fi) % len(ops_)]
                if std[cn].ver == "v1" and val[0] == "counter64":
                    continue
                k += 1
                lay = layouts(op, val, k, names)[0]
                if form == "long1" and any(len(rc.enc_value(x)) > 120 for _, x in lay):
                    continue                     # one length octet cannot express it
                a, b = one_case(rec, std[cn], agent, op, lay, k, form=form)
                t = rc.enc_value(val)
                runs.append((a, b, dict(cfg=cn, op=op, vt=val[0], tlv=list(t), cls=-1, form=form)))
                chk.case((cn, op, form, t.hex()))
    # random values over the full ranges
    nrand = 20000 if thorough else 2500
    for i in range(nrand):
        cn = carriers[i % len(carriers)] if (thorough or i % 3 == 0) else "v2c"
        cfg = std[cn]
        ops = ["get", "get_many", "getnext"] + ([] if cfg.ver == "v1" else ["getbulk"])
        op = ops[rng.randrange(len(ops))]
        val = random_value(rng)
        k += 1
        lay = layouts(op, val, k + rng.randrange(3), names)[0]
        a, b = one_case(rec, cfg, agent, op, lay, k)
        t = rc.enc_value(val)
        runs.append((a, b, dict(cfg=cn, op=op, vt=val[0], tlv=list(t), cls=-1)))
        chk.case((cn, op, t.hex()))
    # many varbinds (0..40) in one get_many reply
    for n in ([0, 1, 2, 40] if not thorough else list(range(0, 41, 3))):
        k += 1
        lay = [(BASE + [7, i], random_value(rng)) for i in range(n)]
        a, b = one_case(rec, std["v2c"], agent, "get_many", lay, k)
        runs.append((a, b, dict(cfg="v2c", op="get_many", vt="list%d" % n, tlv=[], cls=-1)))
        chk.case(("v2c", "list", n))
    # a sample of the corpus through the PUBLIC API (sync / async SnmpSession.get and get_many): the Python layer hands the value on unchanged
    nraw = len(runs)
    items = []
    for ci, cn in enumerate(["v2c", "v3-sha1-aes"]):
        for vi, v in enumerate(cvals):
            if (vi + ci * 3 + SEED) % (11 if not thorough else 3):
                continue
            val = ("raw", bytes(v["tlv"]))
            for oi, op in enumerate(("get", "get_many")):
                if not thorough and (vi // 11 + oi) % 2:
                    continue
                client = ["sync", "async"][(vi // 11 + oi + ci + vi) % 2]
                lay = layouts(op, val, vi, names)[0]
                oids = [BASE_TXT + ".1.0"] if op == "get" else [BASE_TXT + ".1.0", BASE_TXT + ".2.0"]
                info = dict(cfg=cn, op=op, vt=v["vt"], tlv=v["tlv"], cls=v["cls"], api=client, lay_k=vi)
                items.append((client, std[cn], op, oids, (lambda lay: (lambda cfg, req: [agent.reply(cfg, req, lay)]))(lay), info,
                              rawdrv.real_entries([rc.enc_value(x) for _, x in lay])))
    runs += apiscripts.exchanges(rec, items)
    for a, b, info in runs[nraw:]:
        chk.case(("api", info["api"], info["cfg"], info["op"], bytes(info["tlv"]).hex()), nontrivial=info["cls"] == 0)
    rec.close()
    print("  %d cases (%d through the sync/async API), %d events" % (len(runs), len(runs) - nraw, rec.n), flush=True)
    v = trace.validate_parallel("TraceSession.tla", "TraceSession.cfg", rec.events, [(a, b) for a, b, _ in runs], k=12, name="c02")
    for i, r in enumerate(v["results"]):
        chk.add_tlc(r, "TraceSession(c02)#%d" % i)
    chk.traces += len(runs)
    ri = 0
    for idx in v["fails"]:
        while ri < len(runs) and runs[ri][1] <= idx:
            ri += 1
        a, b, info = runs[ri]
        ev = rec.events[idx]
        sig = value_sig(info["vt"], info["tlv"])
        sig["ev"] = ev["ev"]
        got = ev.get("exc") or "value"
        if info.get("form"):
            sig["lenform"] = info["form"]
        chk.violation(sig, "%s %s via %s/%s%s: tlv=%s got %s %s" % (info["vt"], sig["form"], info["cfg"], info["op"], (" (all lengths in form %s)" % info["form"]) if info.get("form") else "", bytes(info["tlv"]).hex()[:60], got, json.dumps(ev.get("res"))[:120]),
                      dict(info=info, events=rec.events[a:idx + 1]), confirm=(confirm_by_replay(replay, dict(info=info, events=[])) if ("api" in info and timing_event(ev)) else None))
    chk.sample(dict(kind="corpus-value", value=cvals[7]))
    chk.sample(dict(kind="events", events=rec.events[runs[5][0]:runs[5][1]]))
    chk.assumptions += ["REAL rounding (decimal forms, >53-bit mantissas) interpreted by CPython float / fractions",
                        "stimuli built by harness/py/vlib/refcodec.py; every reply octet re-decoded by TLC"]
    return chk.finish()


def replay(path):
    d = json.load(open(path))
    r = d["replay"]
    print(json.dumps(r["info"]))
    chk = Check("C02", "quick")
    rec = trace.Recorder("c02-replay")
    std = scripts.std_cfgs()
    info = r["info"]
    inj = [e for e in r["events"] if e["ev"] == "Inject"]
    val = ("raw", bytes(info["tlv"]))
    if "api" in info:
        lay = layouts(info["op"], val, info.get("lay_k", 1), [])[0]
        agent = ag.Agent()
        oids = [BASE_TXT + ".1.0"] if info["op"] == "get" else [BASE_TXT + ".1.0", BASE_TXT + ".2.0"]
        apiscripts.exchanges(rec, [(info["api"], std[info["cfg"]], info["op"], oids, lambda cfg, req: [agent.reply(cfg, req, lay)], info,
                                    rawdrv.real_entries([rc.enc_value(x) for _, x in lay]))])
    else:
        a, b = one_case(rec, std[info["cfg"]], ag.Agent(), info["op"], layouts(info["op"], val, 1, [])[0], 1)
    v = trace.validate("TraceSession.tla", "TraceSession.cfg", rec.close())
    if v["accepted"] and not v["fails"]:
        print("replay: accepted")
        return 0
    print("VIOLATION property=C02 replay=%s" % path)
    return 1
