"""C18 - a request never outlives its timeout.

Timeout.tla (TLC, explicit discrete time): ReturnsByDeadline, FinishedInTime, MatchInTimeDelivered over every arrival
schedule of <= 4 non-matching datagrams at ticks 1..7 plus an optional matching reply at any tick (792 schedules);
DEV_RearmTimeoutOnSkip reproduces the pinned sync client (timer restarted by every skipped datagram) and TLC returns
the counterexample.  The schedules of the shape the property names - strays spaced closer than the timeout, reply before
/ after the deadline / never - are replayed IN REAL TIME (tick 125 ms, timeout 4 ticks = 0.5 s; a subset again with tick 350 ms, timeout 1.4 s) through the real sync
and async SnmpSession.get() over v1 / v2c / v3 against a timed agent; TraceTimeout.tla judges outcome and elapsed time
against the model with 250 ms slack; a failing case is re-run and reported only if it fails three times in a row."""
import json, threading, time, socket, asyncio, select
from vlib import env, tlc, trace, scripts, sesscheck, agent as ag, refcodec as rc, apidrv
from vlib.report import Check
from vlib.env import ToolError, SEED

TICK = 0.125
SLOW_TICK = 0.35
LONG_TICK = 1.25
T = 4
SLACK_MS = 250
EARLY_MS = 60


def mc_timeout(dev=False, export=False):
    txt = ("SPECIFICATION MCSpec\nCONSTANTS\n  T = %d\n  Horizon = 7\n  MaxStrays = 4\n  DEV_RearmTimeoutOnSkip = %s\nINVARIANTS ReturnsByDeadline FinishedInTime%s\n"
           "PROPERTIES MatchInTimeDelivered\nCHECK_DEADLOCK FALSE\n" % (T, "TRUE" if dev else "FALSE", " Report" if export else ""))
    return tlc.run_tlc("MC_Timeout.tla", sesscheck.write_cfg(txt, "MC_Timeout.cfg"), workers=4, timeout=900, coverage=False)


class TimedAgent(threading.Thread):
    """answers the first request it sees according to a schedule of (offset_ticks, kind)"""

    def __init__(self, cfg, sched, tick=TICK, reply="response"):
        super().__init__(daemon=True)
        self.cfg, self.sched, self.tick, self.reply = cfg, sorted(sched), tick, reply
        from vlib import rawdrv
        self.net = rawdrv.next_net()          # IPv4 / IPv6 loopback, default / explicit ToS and buffer sizes in rotation
        self.sock, _, self.host, self.port = rawdrv.agent_socket(self.net)
        self.t0 = None

    def run(self):
        r, _, _ = select.select([self.sock], [], [], 5.0)
        if not r:
            return
        data, peer = self.sock.recvfrom(65535)
        self.t0 = time.monotonic()
        req = ag.Request(self.cfg, data)
        a = ag.Agent(engine=self.cfg.engine or None) if self.cfg.engine else ag.Agent()
        vbs = [(bytes(n), ("int", 1)) for n in req.names]
        for off, kind in self.sched:
            dt = self.t0 + off * self.tick - time.monotonic()
            if dt > 0:
                time.sleep(dt)
            if kind != "match":
                d = a.reply(self.cfg, req, vbs, reqid=(req.reqid + 7) & 0x7FFFFFFF)
            elif self.reply == "report":
                # the matching reply is a Report (the agent could not authenticate / place the request): the call ends THEN, with SnmpAuthError
                d = a.report(self.cfg, req, oid=(1, 3, 6, 1, 6, 3, 15, 1, 1, 5, 0), counter=3)
            elif self.reply == "nosuch":
                d = a.reply(self.cfg, req, [(bytes(n), ("noSuchInstance",)) for n in req.names])
            else:
                d = a.reply(self.cfg, req, vbs)
            try:
                self.sock.sendto(d, peer)
            except OSError:
                return


def exc_name(e):
    """the library's exception classes are exported under their documented names; the runtime classes may be subclasses of them"""
    names = [c.__name__ for c in type(e).__mro__]
    for n in names:
        for doc in ("NoSuchInstance", "SnmpAuthError"):
            if n == doc or n == "Py" + doc:
                return doc
    return names[0]


# A call that never returns (C01 / C18: 'fails to return') must not hang the check: every scenario runs under a limit far above its
# deadline; a call still running then is recorded as DidNotReturn and its thread abandoned.  After two of them the client is not
# driven any further (an abandoned call may spin for ever): the remaining scenarios report NotRun and are left out of the trace.
HANGS = {"sync": 0, "async": 0}


def _bounded(client, limit, fn, shape):
    from vlib import bounded
    if HANGS[client] >= 2:
        return shape("NotRun", 0)
    st, r = bounded.call(fn, limit)
    if st == "hang":
        HANGS[client] += 1
        return shape("DidNotReturn", int(limit * 1000))
    return r


def run_case(client, cfg, strays, match, tick=TICK, reply="response"):
    return _bounded(client, T * abs(tick) * 3 + 10, lambda: _run_case(client, cfg, strays, match, tick, reply), lambda r, el: (r, el))


def run_flood(client, cfg, tick=TICK, pace=0.0003):
    return _bounded(client, T * abs(tick) * 3 + 10, lambda: _run_flood(client, cfg, tick, pace), lambda r, el: (r, el))


def run_pair(client, cfg, stray_at, second_reply_at):
    return _bounded(client, T * TICK * 6 + 15, lambda: _run_pair(client, cfg, stray_at, second_reply_at), lambda r, el: [(r, el), (r, el)])


def split_cfg(cn):
    """'v3-md5#report' -> ('v3-md5', 'report'): the kind of the matching reply rides on the configuration name"""
    base, _, kind = cn.partition("#")
    return base, (kind or "response")


HUGE_TIMEOUT_S = 4295.2          # just above 2^32 microseconds
HUGE_T = 34361                   # ... in ticks of 125 ms


def _run_case(client, cfg, strays, match, tick=TICK, reply="response"):
    from gufo.snmp import SnmpVersion
    huge = reply == "huge"
    reply = "response" if huge else reply
    sched = [(s, "stray") for s in strays] + ([(match, "match")] if match else [])
    agent = TimedAgent(cfg, sched, tick, reply)
    agent.start()
    ver = {"v1": SnmpVersion.v1, "v2c": SnmpVersion.v2c, "v3": SnmpVersion.v3}[cfg.ver]
    kw = dict(port=agent.port, community=cfg.community, version=ver, timeout=T * tick if not huge else HUGE_TIMEOUT_S, tos=agent.net[2], send_buffer=agent.net[3], recv_buffer=agent.net[4])
    if cfg.ver == "v3":
        kw.update(engine_id=cfg.engine, user=apidrv.user_of(cfg))
    result = "?"
    if client == "sync":
        from gufo.snmp.sync_client import SnmpSession
        s = SnmpSession(agent.host, **kw)
        t0 = time.monotonic()
        try:
            s.get("1.3.6.1.2.1.1.3.0")
            result = "delivered"
        except BaseException as e:  # noqa
            result = exc_name(e)
        el = time.monotonic() - t0
    else:
        from gufo.snmp.async_client import SnmpSession

        async def go():
            s = SnmpSession(agent.host, **kw)
            t0 = time.monotonic()
            try:
                await s.get("1.3.6.1.2.1.1.3.0")
                r = "delivered"
            except BaseException as e:  # noqa
                r = exc_name(e)
            return r, time.monotonic() - t0
        result, el = asyncio.run(go())
    try:
        agent.sock.close()
    except OSError:
        pass
    return result, int(el * 1000)


def _run_flood(client, cfg, tick=TICK, pace=0.0003):
    """No reply; well-formed non-matching datagrams keep arriving every ~0.3 ms from 0.6 T until 1.5 T - across the deadline, so that
    the receive loop computes its remaining time again and again around the moment it reaches zero.  Returns (result, elapsed_ms)."""
    from gufo.snmp import SnmpVersion
    from vlib import rawdrv

    class FloodAgent(threading.Thread):
        def __init__(self):
            super().__init__(daemon=True)
            self.net = rawdrv.next_net()
            self.sock, _, self.host, self.port = rawdrv.agent_socket(self.net)

        def run(self):
            r, _, _ = select.select([self.sock], [], [], 5.0)
            if not r:
                return
            data, peer = self.sock.recvfrom(65535)
            t0 = time.monotonic()
            req = ag.Request(cfg, data)
            a = ag.Agent(engine=cfg.engine or None) if cfg.engine else ag.Agent()
            d = a.reply(cfg, req, [(bytes(n), ("int", 1)) for n in req.names], reqid=(req.reqid + 7) & 0x7FFFFFFF)
            time.sleep(max(0.0, t0 + 0.6 * T * tick - time.monotonic()))
            end = t0 + 1.5 * T * tick
            while time.monotonic() < end:
                try:
                    self.sock.sendto(d, peer)
                except OSError:
                    return
                time.sleep(pace)
    agent = FloodAgent()
    agent.start()
    ver = {"v1": SnmpVersion.v1, "v2c": SnmpVersion.v2c, "v3": SnmpVersion.v3}[cfg.ver]
    kw = dict(port=agent.port, community=cfg.community, version=ver, timeout=T * tick, tos=agent.net[2], send_buffer=agent.net[3], recv_buffer=agent.net[4])
    if cfg.ver == "v3":
        kw.update(engine_id=cfg.engine, user=apidrv.user_of(cfg))
    if client == "sync":
        from gufo.snmp.sync_client import SnmpSession
        s = SnmpSession(agent.host, **kw)
        t0 = time.monotonic()
        try:
            s.get("1.3.6.1.2.1.1.3.0")
            result = "delivered"
        except BaseException as e:  # noqa
            result = type(e).__name__
        el = time.monotonic() - t0
    else:
        from gufo.snmp.async_client import SnmpSession

        async def go():
            s = SnmpSession(agent.host, **kw)
            t0 = time.monotonic()
            try:
                await s.get("1.3.6.1.2.1.1.3.0")
                r = "delivered"
            except BaseException as e:  # noqa
                r = type(e).__name__
            return r, time.monotonic() - t0
        result, el = asyncio.run(go())
    agent.join(3.0)
    try:
        agent.sock.close()
    except OSError:
        pass
    return result, int(el * 1000)


def run_burst(cfg, n=12, tick=TICK):
    """n sync sessions in n threads call get() at the same moment, each against its own silent agent: every one of them is a request
    with its own timeout - none may wait for the others (buffers, locks and pools are shared by the sessions of a process)"""
    from gufo.snmp import SnmpVersion
    from gufo.snmp.sync_client import SnmpSession
    from vlib import rawdrv
    ver = {"v1": SnmpVersion.v1, "v2c": SnmpVersion.v2c, "v3": SnmpVersion.v3}[cfg.ver]
    socks, sessions = [], []
    for i in range(n):
        net = rawdrv.next_net()
        sock, _, host, port = rawdrv.agent_socket(net)
        socks.append(sock)
        kw = dict(port=port, community=cfg.community, version=ver, timeout=T * tick, tos=net[2], send_buffer=net[3], recv_buffer=net[4])
        if cfg.ver == "v3":
            kw.update(engine_id=cfg.engine, user=apidrv.user_of(cfg))
        sessions.append(SnmpSession(host, **kw))
    barrier = threading.Barrier(n)
    out = [None] * n

    def work(i):
        barrier.wait()
        t0 = time.monotonic()
        try:
            sessions[i].get("1.3.6.1.2.1.1.3.0")
            r = "delivered"
        except BaseException as e:  # noqa
            r = type(e).__name__
        out[i] = (r, int((time.monotonic() - t0) * 1000))
    ths = [threading.Thread(target=work, args=(i,), daemon=True) for i in range(n)]
    for t in ths:
        t.start()
    for t in ths:
        t.join(T * tick * 6 + 5)
    for sk in socks:
        sk.close()
    return [o if o is not None else ("Hang", int(T * tick * 6000)) for o in out]


def run_signals(cfg, tick=TICK, every=0.12):
    """MAIN THREAD ONLY.  A sync get() against a silent agent while the process handles a signal every `every` seconds (closer than
    the timeout): whatever an interrupted receive does, the call is over by its deadline.  Returns (result, elapsed_ms)."""
    import signal
    from gufo.snmp import SnmpVersion
    from gufo.snmp.sync_client import SnmpSession
    from vlib import rawdrv
    net = rawdrv.next_net()
    sock, _, host, port = rawdrv.agent_socket(net)
    ver = {"v1": SnmpVersion.v1, "v2c": SnmpVersion.v2c, "v3": SnmpVersion.v3}[cfg.ver]
    kw = dict(port=port, community=cfg.community, version=ver, timeout=T * tick, tos=net[2], send_buffer=net[3], recv_buffer=net[4])
    if cfg.ver == "v3":
        kw.update(engine_id=cfg.engine, user=apidrv.user_of(cfg))
    s = SnmpSession(host, **kw)
    count = [0]

    def handler(signum, frame):
        count[0] += 1
    old = signal.signal(signal.SIGALRM, handler)
    signal.setitimer(signal.ITIMER_REAL, every, every)
    # bounded: three timeouts' worth of signals, then silence.  (Stopped from another thread: the Python-level handler does not run
    # while the main thread is inside the extension's receive call.)
    stopper = threading.Timer(3 * T * tick, lambda: signal.setitimer(signal.ITIMER_REAL, 0, 0))
    stopper.daemon = True
    stopper.start()
    t0 = time.monotonic()
    try:
        try:
            s.get("1.3.6.1.2.1.1.3.0")
            result = "delivered"
        except BaseException as e:  # noqa
            result = type(e).__name__
        el = time.monotonic() - t0
    finally:
        stopper.cancel()
        signal.setitimer(signal.ITIMER_REAL, 0, 0)
        signal.signal(signal.SIGALRM, old)
        sock.close()
    return result, int(el * 1000)


def _run_pair(client, cfg, stray_at, second_reply_at):
    """Two requests on ONE session: the first sees a stray at tick `stray_at` and times out; the second is answered at
    tick `second_reply_at` (< T) and must be delivered - whatever the first call left behind."""
    from gufo.snmp import SnmpVersion

    class PairAgent(threading.Thread):
        def __init__(self):
            super().__init__(daemon=True)
            self.sock = socket.socket(socket.AF_INET, socket.SOCK_DGRAM)
            self.sock.bind(("127.0.0.1", 0))
            self.port = self.sock.getsockname()[1]

        def run(self):
            a = ag.Agent(engine=cfg.engine or None) if cfg.engine else ag.Agent()
            for k in range(2):
                r, _, _ = select.select([self.sock], [], [], 5.0)
                if not r:
                    return
                data, peer = self.sock.recvfrom(65535)
                t0 = time.monotonic()
                req = ag.Request(cfg, data)
                vbs = [(bytes(n), ("int", 1)) for n in req.names]
                off = stray_at if k == 0 else second_reply_at
                dt = t0 + off * TICK - time.monotonic()
                if dt > 0:
                    time.sleep(dt)
                d = a.reply(cfg, req, vbs, reqid=(req.reqid + 7) & 0x7FFFFFFF) if k == 0 else a.reply(cfg, req, vbs)
                try:
                    self.sock.sendto(d, peer)
                except OSError:
                    return
    agent = PairAgent()
    agent.start()
    ver = {"v1": SnmpVersion.v1, "v2c": SnmpVersion.v2c, "v3": SnmpVersion.v3}[cfg.ver]
    kw = dict(port=agent.port, community=cfg.community, version=ver, timeout=T * TICK)
    if cfg.ver == "v3":
        kw.update(engine_id=cfg.engine, user=apidrv.user_of(cfg))
    out = []
    if client == "sync":
        from gufo.snmp.sync_client import SnmpSession
        s = SnmpSession("127.0.0.1", **kw)
        for k in range(2):
            t0 = time.monotonic()
            try:
                s.get("1.3.6.1.2.1.1.3.0")
                r = "delivered"
            except BaseException as e:  # noqa
                r = type(e).__name__
            out.append((r, int((time.monotonic() - t0) * 1000)))
    else:
        from gufo.snmp.async_client import SnmpSession

        async def go():
            s = SnmpSession("127.0.0.1", **kw)
            res = []
            for k in range(2):
                t0 = time.monotonic()
                try:
                    await s.get("1.3.6.1.2.1.1.3.0")
                    r = "delivered"
                except BaseException as e:  # noqa
                    r = type(e).__name__
                res.append((r, int((time.monotonic() - t0) * 1000)))
            return res
        out = asyncio.run(go())
    try:
        agent.sock.close()
    except OSError:
        pass
    return out


def event(client, cfgname, strays, match, result, el, tick=TICK, signals=False):
    if split_cfg(cfgname)[1] == "huge":
        return dict(ev="Timed", signals=bool(signals), client=client, ver=cfgname, reply="response", T=HUGE_T, tick_ms=int(tick * 1000), strays=list(strays), match=match, result=result,
                    elapsed_ms=el, slack_ms=SLACK_MS, early_ms=EARLY_MS)
    return dict(ev="Timed", signals=bool(signals), client=client, ver=cfgname, reply=split_cfg(cfgname)[1], T=T, tick_ms=int(tick * 1000), strays=list(strays), match=match, result=result, elapsed_ms=el,
                slack_ms=SLACK_MS, early_ms=EARLY_MS)


def run(tier):
    chk = Check("C18", tier)
    thorough = tier == "thorough"
    chk.rule = ("schedules of Timeout.tla with strays at ticks {1,3,5,7} (spacing 0.25 s < timeout 0.5 s) and the matching reply at tick 2 (in time), 6 (late) or never, "
                "replayed in real time through sync and async get() over v1/v2c/v3; distinct = (client, version, schedule); non-trivial = at least one stray datagram")
    res = mc_timeout(export=True)
    tlc.require_ok(res, "MC_Timeout")
    chk.add_tlc(res, "MC_Timeout (required design)")
    dres = mc_timeout(dev=True)
    if dres.ok or "ReturnsByDeadline" not in (dres.violation or "") and "FinishedInTime" not in (dres.violation or ""):
        raise ToolError("DEV_RearmTimeoutOnSkip did not yield the expected counterexample: %s" % dres.violation)
    chk.extra["deviation_counterexample"] = "DEV_RearmTimeoutOnSkip=TRUE violates ReturnsByDeadline (the pinned sync client)"
    sch = {}
    for x in res.printed:
        if isinstance(x, dict) and "strays" in x:
            sch[(tuple(sorted(x["strays"])), x["match"])] = x
    if len(sch) < 792:
        raise ToolError("schedule export incomplete: %d" % len(sch))
    chosen = [k for k in sch if set(k[0]) <= {1, 3, 5, 7} and k[1] in (0, 2, 6)]
    if thorough:
        chosen += [k for k in sch if set(k[0]) <= {2, 4, 6} and k[1] in (0, 1, 3, 7)]
    std = scripts.std_cfgs()
    cases = []
    for ci, cn in enumerate(["v2c", "v1", "v3-md5"]):
        for client in ("sync", "async"):
            for ki, k in enumerate(chosen):
                if not thorough and cn != "v2c" and (ki + ci + SEED) % 3:
                    continue
                cases.append((client, cn, k, TICK))
    # the same schedules on a second time scale (tick 350 ms: timeout 1.4 s, i.e. whole seconds plus a fraction): unit / rounding slips in the
    # remaining-time arithmetic are invisible while everything stays below one second
    slow = [((1,), 3), ((1, 2), 3), ((), 3), ((1,), 0), ((1, 3), 0), ((1,), 6), ((), 0), ((2,), 3)]
    for cn in (["v2c"] if not thorough else ["v2c", "v1", "v3-md5"]):
        for client in ("sync", "async"):
            for k in slow:
                if k in sch:
                    cases.append((client, cn, k, SLOW_TICK))
    # a timeout above 2^32 ns (4.29 s): 4 ticks of 1.25 s = 5 s - the default timeout of the clients is 10 s, so every quantity that
    # carries it must hold more than 32 bits of nanoseconds
    for client in ("sync", "async"):
        for k in [((1,), 3), ((1,), 0)] + ([((), 3), ((2,), 0)] if thorough else []):
            if k in sch:
                cases.append((client, "v2c", k, LONG_TICK))
    # the matching reply is an ERROR reply (a Report for v3, an exception value for v2c): the call ends when it arrives - with that
    # error, not later and not with TimeoutError
    for client in ("sync", "async"):
        for cn, k in [("v3-md5#report", ((), 3)), ("v3-md5#report", ((1,), 3)), ("v3-noauth#report", ((), 2)), ("v2c#nosuch", ((1,), 3)), ("v2c#nosuch", ((), 1))] + \
                     ([("v3-sha1-aes#report", ((2,), 3)), ("v3-md5#report", ((), 1))] if thorough else []):
            cases.append((client, cn, k, TICK))
    # timeouts of more than 2^32 microseconds (71 minutes): a skipped datagram, then the matching reply half a second later
    for client in ("sync", "async"):
        for cn, k in [("v2c#huge", ((1,), 4)), ("v3-md5#huge", ((1, 2), 5))]:
            cases.append((client, cn, k, TICK))
    # stray floods across the deadline (no reply): TimeoutError at the timeout, nothing else
    for cn in (["v2c", "v3-md5"] if not thorough else ["v2c", "v1", "v3-md5"]):
        for client in ("sync", "async"):
            for rep in range(3 if not thorough else 8):
                cases.append((client, cn, ((2, 3, 4, 5, rep + 10), 0), -TICK))           # negative tick marks a flood case (strays are informational)
    results = {}
    lock = threading.Lock()

    def one(c):
        client, cn, (strays, match), tick = c
        if tick < 0:
            return run_flood(client, std[cn], -tick)
        return run_case(client, std[split_cfg(cn)[0]], strays, match, tick, reply=split_cfg(cn)[1])

    def worker(items):
        for c in items:
            r = one(c)
            with lock:
                results[c] = r
    nthreads = 16
    order = sorted(cases, key=lambda c: -abs(c[3]))          # the slow ones first, one per thread
    threads = [threading.Thread(target=worker, args=(order[i::nthreads],)) for i in range(nthreads)]
    for t in threads:
        t.start()
    for t in threads:
        t.join()
    # pairs of requests on one session: what the first call (stray, then timeout) leaves behind must not shorten the second
    pairs = [(client, cn, sa, ra) for client in ("sync", "async") for cn in (["v2c", "v3-md5"] if not thorough else ["v2c", "v1", "v3-md5"])
             for sa in (1, 3) for ra in (1, 3)]
    pres = {}

    def pworker(items):
        for p in items:
            r = run_pair(p[0], std[p[1]], p[2], p[3])
            with lock:
                pres[p] = r
    pthreads = [threading.Thread(target=pworker, args=(pairs[i::8],)) for i in range(8)]
    for t in pthreads:
        t.start()
    for t in pthreads:
        t.join()
    # bursts of concurrent sync requests (run after the parallel phase, on an otherwise idle process)
    bursts = []
    for cn, n in ([("v2c", 12), ("v3-md5", 10)] if not thorough else [("v2c", 12), ("v2c", 24), ("v1", 12), ("v3-md5", 16)]):
        bursts.append((cn, n, run_burst(std[cn], n)))
    # signals handled by the process while a sync request is blocked (main thread, after everything else)
    sigruns = []
    for cn in (["v2c", "v3-md5"] if not thorough else ["v2c", "v1", "v3-md5"]):
        for rep in range(2):
            sigruns.append((cn, run_signals(std[cn])))
    rec = trace.Recorder("c18")
    for c in cases:
        client, cn, (strays, match), tick = c
        rec.emit(event(client, cn, strays, match, *results[c], tick=abs(tick)))
        chk.case((client, cn, strays, match, tick), nontrivial=len(strays) > 0)
    pair_index = {}
    for p in pairs:
        client, cn, sa, ra = p
        r = pres[p]
        if len(r) == 2:
            rec.emit(event(client, cn, (sa,), 0, *r[0]))          # first call: one stray, no reply -> TimeoutError at T
            pair_index[rec.n] = p
            rec.emit(event(client, cn, (), ra, *r[1]))             # second call on the same session: reply at ra < T
            pair_index[rec.n] = p
        chk.case(("pair", client, cn, sa, ra))
    burst_index = {}
    for bi, (cn, n, res) in enumerate(bursts):
        for r in res:
            rec.emit(event("sync", cn, (), 0, *r))
            burst_index[rec.n] = bi
        chk.case(("burst", cn, n), n=n)
    sig_index = {}
    for cn, r in sigruns:
        rec.emit(event("sync", cn, (), 0, *r, signals=True))
        sig_index[rec.n] = cn
        chk.case(("signals", cn))
    v = trace.validate("TraceTimeout.tla", "TraceTimeout.cfg", rec.close())
    chk.add_tlc(v["res"], "TraceTimeout")
    chk.traces += len(cases)
    for f in list(v["fails"]):
        if f in sig_index:
            v["fails"].remove(f)
            cn = sig_index[f]
            evs = [rec.events[f - 1]]
            confirmed = True
            for _ in range(2):
                r = run_signals(std[cn])
                e2 = event("sync", cn, (), 0, *r, signals=True)
                rec2 = trace.Recorder("c18-confirm")
                rec2.emit(e2)
                evs.append(e2)
                if not trace.validate("TraceTimeout.tla", "TraceTimeout.cfg", rec2.close())["fails"]:
                    confirmed = False
                    break
            if confirmed and ("signals", cn) not in chk.extra.setdefault("_sig_reported", []):
                chk.extra["_sig_reported"].append(("signals", cn))
                chk.violation(dict(kind="signals", client="sync", result=evs[0]["result"]),
                              "sync %s get(), timeout %.3f s, silent agent, a signal handled every 0.12 s: %s after %d ms (three runs: %s)" %
                              (cn, T * TICK, evs[0]["result"], evs[0]["elapsed_ms"], [x["elapsed_ms"] for x in evs]), dict(kind="signals", cfg=cn, runs=evs))
    chk.extra.pop("_sig_reported", None)
    reported_bursts = set()
    for f in list(v["fails"]):
        if f in burst_index:
            v["fails"].remove(f)
            bi = burst_index[f]
            if bi in reported_bursts:
                continue
            cn, n, res = bursts[bi]
            # confirmation: the whole burst again, twice; reported only if some request of each re-run fails as well
            confirmed, again = True, []
            for _ in range(2):
                r2 = run_burst(std[cn], n)
                again.append(r2)
                rec2 = trace.Recorder("c18-confirm")
                for r in r2:
                    rec2.emit(event("sync", cn, (), 0, *r))
                if not trace.validate("TraceTimeout.tla", "TraceTimeout.cfg", rec2.close())["fails"]:
                    confirmed = False
                    break
            if confirmed:
                reported_bursts.add(bi)
                chk.violation(dict(kind="burst", client="sync", result=sorted({r[0] for r in res})[0]),
                              "%d concurrent sync get() calls on %s, timeout %.3f s, silent agents: outcomes %s" % (n, cn, T * TICK, sorted(res, key=lambda x: x[1])[-4:]),
                              dict(kind="burst", cfg=cn, n=n, runs=[res] + again))
    # re-confirmation: a case is reported only if it fails three times in a row (no single-shot timing verdicts)
    for f in v["fails"]:
        if f > len(cases):
            p = pair_index.get(f)
            client, cn, sa, ra = p
            confirmed, evs = True, [rec.events[f - 1]]
            for _ in range(2 if evs[0]["result"] != "DidNotReturn" else 0):          # (a call that did not return at all needs no re-run)
                r = run_pair(client, std[cn], sa, ra)
                rec2 = trace.Recorder("c18-confirm")
                rec2.emit(event(client, cn, (sa,), 0, *r[0]))
                rec2.emit(event(client, cn, (), ra, *r[1]))
                v2 = trace.validate("TraceTimeout.tla", "TraceTimeout.cfg", rec2.close())
                evs.append(rec2.events[-1])
                if not v2["fails"]:
                    confirmed = False
                    break
            if confirmed:
                chk.violation(dict(client=client, kind="second-request-on-session", result=evs[0]["result"]),
                              "%s %s: after a request that saw a stray at tick %d and timed out, the next request (reply at tick %d < timeout) ended %s after %d ms" %
                              (client, cn, sa, ra, evs[0]["result"], evs[0]["elapsed_ms"]), dict(client=client, cfg=cn, pair=[sa, ra], runs=evs))
            continue
        c = cases[f - 1]
        client, cn, (strays, match), tick = c
        evs = [rec.events[f - 1]]
        confirmed = True
        for _ in range(2 if evs[0]["result"] != "DidNotReturn" else 0):
            r = one(c)
            rec2 = trace.Recorder("c18-confirm")
            e2 = event(client, cn, strays, match, *r, tick=abs(tick))
            rec2.emit(e2)
            v2 = trace.validate("TraceTimeout.tla", "TraceTimeout.cfg", rec2.close())
            evs.append(e2)
            if not v2["fails"]:
                confirmed = False
                break
        if confirmed:
            late = "late-match" if match >= T else ("match" if match else "none")
            sig = dict(client=client, nstrays=len(strays) if len(strays) < 2 else "2+", reply=late, result=evs[0]["result"], timeout_over_1s=T * abs(tick) > 1.0, flood=tick < 0)
            chk.violation(sig, "%s %s get(), timeout %.3f s, %s, reply at %s: %s after %d ms (three runs: %s)" % (client, cn, HUGE_TIMEOUT_S if cn.endswith("#huge") else T * abs(tick), ("strays at %s ticks" % list(strays)) if tick > 0 else "a stray every 0.3 ms from 0.6 T to 1.5 T", match or "never",
                          evs[0]["result"], evs[0]["elapsed_ms"], [x["elapsed_ms"] for x in evs]), dict(client=client, cfg=cn, strays=list(strays), match=match, tick=tick, runs=evs))
    chk.sample(dict(kind="timed-run", event=rec.events[5]))
    chk.assumptions += ["wall-clock measurement with %d ms slack; a regression smaller than the slack is not detected" % SLACK_MS,
                        "schedules replayed: strays spaced 2 ticks apart (the model explores all 792 schedules)"]
    return chk.finish()


def replay(path):
    d = json.load(open(path))
    r = d["replay"]
    std = scripts.std_cfgs()
    bad = 0
    if r.get("kind") == "signals":
        bad = 0
        for _ in range(3):
            res = run_signals(std[r["cfg"]])
            rec = trace.Recorder("c18-replay")
            rec.emit(event("sync", r["cfg"], (), 0, *res, signals=True))
            v = trace.validate("TraceTimeout.tla", "TraceTimeout.cfg", rec.close())
            print(res, "rejected" if v["fails"] else "accepted")
            bad += 1 if v["fails"] else 0
        if bad == 3:
            print("VIOLATION property=C18 replay=%s" % path)
            return 1
        return 0
    if r.get("kind") == "burst":
        bad = 0
        for _ in range(3):
            res = run_burst(std[r["cfg"]], r["n"])
            rec = trace.Recorder("c18-replay")
            for x in res:
                rec.emit(event("sync", r["cfg"], (), 0, *x))
            v = trace.validate("TraceTimeout.tla", "TraceTimeout.cfg", rec.close())
            print(sorted(res, key=lambda x: x[1])[-3:], "rejected" if v["fails"] else "accepted")
            bad += 1 if v["fails"] else 0
        if bad == 3:
            print("VIOLATION property=C18 replay=%s" % path)
            return 1
        return 0
    if "pair" in r:
        for _ in range(3):
            res = run_pair(r["client"], std[r["cfg"]], r["pair"][0], r["pair"][1])
            rec = trace.Recorder("c18-replay")
            rec.emit(event(r["client"], r["cfg"], (r["pair"][0],), 0, *res[0]))
            rec.emit(event(r["client"], r["cfg"], (), r["pair"][1], *res[1]))
            v = trace.validate("TraceTimeout.tla", "TraceTimeout.cfg", rec.close())
            print(res, "rejected" if v["fails"] else "accepted")
            bad += 1 if v["fails"] else 0
        if bad == 3:
            print("VIOLATION property=C18 replay=%s" % path)
            return 1
        return 0
    for _ in range(3):
        if r.get("tick", TICK) < 0:
            res = run_flood(r["client"], std[r["cfg"]], -r["tick"])
        else:
            res = run_case(r["client"], std[split_cfg(r["cfg"])[0]], tuple(r["strays"]), r["match"], r.get("tick", TICK), reply=split_cfg(r["cfg"])[1])
        rec = trace.Recorder("c18-replay")
        rec.emit(event(r["client"], r["cfg"], r["strays"], r["match"], *res, tick=abs(r.get("tick", TICK))))
        v = trace.validate("TraceTimeout.tla", "TraceTimeout.cfg", rec.close())
        print(res, "rejected" if v["fails"] else "accepted")
        bad += 1 if v["fails"] else 0
    if bad == 3:
        print("VIOLATION property=C18 replay=%s" % path)
        return 1
    return 0
