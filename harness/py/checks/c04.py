"""C04 - only the reply to the outstanding request is ever delivered.

Session.tla (TLC): DeliverOnlyCurrent, SkipKeepsWaiting, UndecodableEndsCall, LaterMatchDelivered over every
interleaving of sends, receive-loop iterations and injections of the curated fault alphabet.  The same model
exports every completed behaviour as a script; each is replayed on the real raw sockets (every version /
security level), and TraceSession.tla - decoding the logged octets itself - computes the outcome every recv
call had to have from the ids actually seen on the wire.  The behaviours are replayed a second time through the
public API (sync and async SnmpSession.get / get_many against an agent that answers request k with the datagrams
the behaviour injects), so that the clients' own receive loops are judged by the same trace specification."""
import json
from vlib import env, tlc, sesscheck, scripts, apiscripts, trace
from vlib.report import Check, timing_event
from vlib.env import ToolError, SEED

CFGS_QUICK = ["v1", "v2c", "v3-noauth", "v3-md5", "v3-sha1-aes"]
CFGS_THOROUGH = ["v1", "v2c", "v3-noauth", "v3-md5", "v3-sha1", "v3-md5-des", "v3-sha1-aes", "v3-md5-aes", "v3-sha1-des"]


def signature(f):
    op, consumed, model = f["call"] if f["call"] else ("?", [], "?")
    ev = f["event"]
    got = ev.get("exc") or ("value" if ev.get("ev") == "Recv" else "sent")
    ver = "v3" if f["cfgname"].startswith("v3") else f["cfgname"]
    return dict(ver=ver, ev=ev.get("ev"), consumed="|".join(consumed), model=model, got=got)


def run(tier):
    chk = Check("C04", tier)
    thorough = tier == "thorough"
    chk.rule = ("every completed behaviour of Session.tla (sends, injections of the matching reply / one-field mutants / "
                "stale replies / garbage, receive-loop iterations) within the bound, replayed on real sockets of every "
                "version/security level; distinct = (config, script); non-trivial = the script injects at least one datagram")
    cfgs = CFGS_THOROUGH if thorough else CFGS_QUICK
    # design level
    for cn in (["v2c", "v3-md5", "v3-sha1-aes"] if not thorough else ["v1", "v2c", "v3-noauth", "v3-md5", "v3-sha1-aes"]):
        res = sesscheck.mc_session(chk, cn, 3 if thorough else 2, 3 if thorough else 2, 4 if thorough else 3)
        tlc.require_ok(res, "MC_Session " + cn)
        tlc.require_coverage(res, ["SendRequest", "Inject", "RecvOne", "RecvWouldBlock"], "MC_Session " + cn)
        chk.add_tlc(res, "MC_Session %s" % cn)
    # spec -> impl -> spec
    items = []
    exported = {}
    std = scripts.std_cfgs()
    for ci, cn in enumerate(cfgs):
        deep = thorough and cn in ("v1", "v2c", "v3-md5", "v3-sha1-aes")       # three injections: 40k-110k behaviours per configuration
        scr, res = sesscheck.export_scripts(cn, 2, 2, 3 if deep else 2)
        chk.add_tlc(res, "export %s" % cn)
        if thorough:
            scr3, res3 = sesscheck.export_scripts(cn, 3, 2, 2)
            chk.add_tlc(res3, "export3 %s" % cn)
            scr = scr + scr3
        exported[cn] = scr
        if not thorough and cn not in ("v2c", "v3-md5"):
            scr = [s for si, s in enumerate(scr) if (si + SEED) % 5 == 0]       # quick: sample the other configurations
        for si, s in enumerate(scr):
            items.append((cn, std[cn], s, (si + ci + SEED) % 28))
            chk.case((cn, json.dumps(s, sort_keys=True)), nontrivial=any(a["a"] == "inject" for a in s))
    failures, rec, runs = sesscheck.replay_and_judge(chk, "c04", items)
    for f in failures:
        sig = signature(f)
        chk.violation(sig, "config %s: %s on consumed=[%s] model=%s got=%s" % (f["cfgname"], sig["ev"], sig["consumed"], sig["model"], sig["got"]),
                      dict(cfgname=f["cfgname"], script=f["script"], failing_event=f["event"]))
    api_part(chk, thorough, exported)
    later_request_part(chk, thorough)
    overlapping_calls_part(chk, thorough)
    huge_timeout_part(chk, thorough)
    chk.sample(dict(kind="script", cfg=items[len(items) // 2][0], script=items[len(items) // 2][2]))
    chk.sample(dict(kind="trace-events", events=rec.events[1:4]))
    chk.assumptions += ["loopback UDP preserves order and does not drop (single-threaded stepping)",
                        "HMAC/DES/AES interpreted by the reference implementations (hashlib / refcrypto)"]
    return chk.finish()


def api_items(exported, thorough):
    std = scripts.std_cfgs()
    items = []
    n = 0
    for ci, cn in enumerate(["v2c", "v3-md5", "v1", "v3-sha1-aes", "v3-noauth"]):
        if cn not in exported:
            continue
        plans = apiscripts.plans_of(exported[cn])
        for pi, plan in enumerate(plans):
            if not thorough and (pi + ci + SEED) % (14 if cn in ("v2c", "v3-md5") else 40):
                continue
            # client and pacing are taken from a running counter (not from the sampled index: that would tie them to the sampling stride)
            n += 1
            variant = (n * 5 + n // 2) % 28            # odd variants: the agent spaces its datagrams
            if thorough:
                items.append(("sync", cn, std[cn], plan, variant))
                items.append(("async", cn, std[cn], plan, variant + 1))
            else:
                items.append((["sync", "async"][n % 2], cn, std[cn], plan, variant))
    return items


def api_judge(items, name):
    rec = trace.Recorder(name)
    runs = apiscripts.run_all(rec, items)
    rec.close()
    v = trace.validate_parallel("TraceSession.tla", "TraceSession.cfg", rec.events, [(a, b) for a, b, _ in runs], k=10, name=name)
    failed = []
    ri = 0
    for idx in v["fails"]:
        while runs[ri][1] <= idx:
            ri += 1
        failed.append((ri, idx, rec.events[idx]))
    return rec, runs, v, failed


def api_part(chk, thorough, exported):
    """the same behaviours through SnmpSession.get()/get_many() of the sync and async clients (their own receive loops)"""
    items = api_items(exported, thorough)
    rec, runs, v, failed = api_judge(items, "c04api")
    for i, r in enumerate(v["results"]):
        chk.add_tlc(r, "TraceSession(c04api)#%d" % i)
    chk.traces += len(runs)
    for a, b, info in runs:
        chk.case(("api", info["client"], info["cfgname"], json.dumps(info["plan"], sort_keys=True)))
    print("  api: %d behaviours through the sync/async clients, %d events, %d first-pass failures" % (len(runs), rec.n, len(failed)), flush=True)
    seen = set()
    for ri, idx, ev in failed:
        if ri in seen:
            continue
        seen.add(ri)
        # real sockets + real time (200 ms timeout): a failure is reported only if the same behaviour fails three times in a row
        confirmed = True
        for _ in range(2 if timing_event(ev) else 0):          # only a timeout can be a scheduling artefact; anything else is reported as it stands
            _, _, _, f2 = api_judge([items[ri]], "c04api-confirm")
            if not f2:
                confirmed = False
                break
        if not confirmed:
            chk.extra.setdefault("unconfirmed_api_failures", 0)
            chk.extra["unconfirmed_api_failures"] += 1
            continue
        info = runs[ri][2]
        got = ev.get("exc") or ("value" if ev.get("ev") == "Recv" else "sent")
        sig = dict(kind="api", client=info["client"], ver="v3" if info["cfgname"].startswith("v3") else info["cfgname"], ev=ev.get("ev"), got=got,
                   injected="|".join(scripts.mutant_name(items[ri][2], d) for p in info["plan"] for d in p))
        chk.violation(sig, "%s client, config %s: %s ended with %s after the agent sent [%s]" % (info["client"], info["cfgname"], ev.get("op") or ev.get("ev"), got, sig["injected"]),
                      dict(kind="api", client=info["client"], cfgname=info["cfgname"], plan=info["plan"], variant=info["variant"], failing_event=ev))


def overlapping_calls(client, cfg, n, order):
    """n calls in flight at once on ONE session (async: gather; sync: threads); the agent answers request k (the k-th OID) with the
    INTEGER k, once all n requests have arrived, in the given order.  Returns [(asked, got, exc, isexc)]."""
    import asyncio, socket, threading, time
    from vlib import agent as ag, apidrv, walks
    from gufo.snmp import SnmpVersion
    sock = socket.socket(socket.AF_INET, socket.SOCK_DGRAM)
    sock.bind(("127.0.0.1", 0))
    sock.settimeout(0.05)
    stop = {"v": False}

    def agent_loop():
        a = ag.Agent(engine=cfg.engine or None) if cfg.engine else ag.Agent()
        seen = []
        t_first = None
        while not stop["v"]:
            try:
                data, peer = sock.recvfrom(65535)
            except OSError:
                data = None
            if data:
                try:
                    req = ag.Request(cfg, data)
                    if req.names and not req.broken:
                        seen.append((req, peer))
                        t_first = t_first or time.monotonic()
                    elif not req.broken:
                        sock.sendto(a.report(cfg, req), peer)            # discovery / time synchronisation
                except Exception:  # noqa
                    pass
            if seen and (len(seen) >= n or time.monotonic() - t_first > 0.25):
                idx = list(range(len(seen)))
                if order == "reversed":
                    idx.reverse()
                for i in idx:
                    req, peer = seen[i]
                    k = walks.arcs_of(bytes(req.names[0]))[-1]
                    sock.sendto(a.reply(cfg, req, [(bytes(req.names[0]), ("int", int(k)))]), peer)
                seen, t_first = [], None
    th = threading.Thread(target=agent_loop, daemon=True)
    th.start()
    ver = {"v1": SnmpVersion.v1, "v2c": SnmpVersion.v2c, "v3": SnmpVersion.v3}[cfg.ver]
    kw = dict(port=sock.getsockname()[1], community=cfg.community, version=ver, timeout=0.6)
    if cfg.ver == "v3":
        kw.update(engine_id=cfg.engine, user=apidrv.user_of(cfg))
    oids = ["1.3.6.1.4.1.9999.7.%d" % (k + 1) for k in range(n)]
    out = []

    def outcome(k, fn_result, exc):
        if exc is None:
            return (k + 1, int(fn_result) if isinstance(fn_result, int) else -1, "", True)
        return (k + 1, 0, type(exc).__name__, isinstance(exc, Exception))
    if client == "async":
        from gufo.snmp.async_client import SnmpSession

        async def go():
            s = SnmpSession("127.0.0.1", **kw)

            async def one(k):
                await asyncio.sleep(0.01 * k)
                try:
                    return outcome(k, await s.get(oids[k]), None)
                except BaseException as e:  # noqa
                    return outcome(k, None, e)
            return await asyncio.gather(*[one(k) for k in range(n)])
        out = list(asyncio.run(go()))
    else:
        from gufo.snmp.sync_client import SnmpSession
        s = SnmpSession("127.0.0.1", **kw)
        res = [None] * n

        def work(k):
            time.sleep(0.01 * k)
            try:
                res[k] = outcome(k, s.get(oids[k]), None)
            except BaseException as e:  # noqa
                res[k] = outcome(k, None, e)
        ths = [threading.Thread(target=work, args=(k,), daemon=True) for k in range(n)]
        for t in ths:
            t.start()
        for t in ths:
            t.join(8.0)
        out = [r if r is not None else (k + 1, 0, "DidNotReturn", True) for k, r in enumerate(res)]
    stop["v"] = True
    th.join(1.0)
    sock.close()
    return out


def overlapping_calls_part(chk, thorough):
    """TraceOwn.tla: calls that overlap on one session return their own reply or an exception - never another call's reply."""
    from vlib import bounded
    std = scripts.std_cfgs()
    rec2 = trace.Recorder("c04-own")
    plans = [(client, cn, n, order) for client in ("async", "sync") for cn in (("v2c", "v3-md5") if not thorough else ("v1", "v2c", "v3-noauth", "v3-md5", "v3-sha1-aes"))
             for n in (2, 3) for order in ("sent", "reversed")]
    index = []
    for client, cn, n, order in plans:
        st, res = bounded.call(lambda: overlapping_calls(client, std[cn], n, order), 30.0)
        if st == "hang":
            res = [(k + 1, 0, "DidNotReturn", True) for k in range(n)]
        for asked, got, exc, isexc in res:
            rec2.emit(dict(ev="Own", client=client, ver=cn, asked=asked, got=got, exc=exc, isexc=bool(isexc), n=n, order=order))
            index.append((client, cn, n, order))
        chk.case(("overlapping", client, cn, n, order), nontrivial=True)
    v = trace.validate("TraceOwn.tla", "TraceOwn.cfg", rec2.close())
    chk.add_tlc(v["res"], "TraceOwn (overlapping calls)")
    chk.traces += len(plans)
    seen = set()
    for f in v["fails"]:
        ev = rec2.events[f - 1]
        key = index[f - 1]
        if key in seen:
            continue
        seen.add(key)
        chk.violation(dict(kind="overlapping-calls", client=ev["client"], got="other" if ev["got"] else ev["exc"]),
                      "%s %s: %d get() calls in flight on one session, replies sent in %s order: the call for OID #%d returned %s" %
                      (ev["client"], ev["ver"], ev["n"], ev["order"], ev["asked"], ("the reply to OID #%d" % ev["got"]) if ev["got"] else ev["exc"]),
                      dict(kind="overlapping", client=ev["client"], cfgname=ev["ver"], n=ev["n"], order=ev["order"]))


def later_request_part(chk, thorough):
    """'Skipped without ending the wait, so a matching reply arriving later is still delivered' over a HISTORY: the wait of request 1
    skips a foreign datagram late and then ends without a reply; request 2 on the same session is answered inside its own wait and must
    be delivered (nothing of the first wait may be left on the socket).  Real time; judged by TraceTimeout.tla, reported after three
    failing runs."""
    from checks import c18
    std = scripts.std_cfgs()
    plans = [(client, cn, sa, ra) for client in ("sync", "async") for cn in (("v2c", "v3-md5") if not thorough else ("v1", "v2c", "v3-noauth", "v3-md5", "v3-sha1-aes"))
             for sa, ra in (((3, 3),) if not thorough else ((3, 3), (3, 1), (2, 3), (1, 2)))]
    for client, cn, sa, ra in plans:
        evs = []
        for attempt in range(3):
            r = c18.run_pair(client, std[cn], sa, ra)
            rec2 = trace.Recorder("c04-later")
            rec2.emit(c18.event(client, cn, (sa,), 0, *r[0]))
            rec2.emit(c18.event(client, cn, (), ra, *r[1]))
            v2 = trace.validate("TraceTimeout.tla", "TraceTimeout.cfg", rec2.close())
            if attempt == 0:
                chk.add_tlc(v2["res"], "TraceTimeout(c04 later request %s %s)" % (client, cn))
                chk.case(("later-request", client, cn, sa, ra), nontrivial=True)
            evs.append(rec2.events[-1])
            if 2 not in v2["fails"]:          # the first call's own timing is C18's business
                break
        else:
            chk.violation(dict(kind="later-request", client=client, result=evs[0]["result"]),
                          "%s %s: request 1 skipped a foreign datagram at tick %d and timed out; request 2 on the same session, answered at tick %d of %d, ended %s after %d ms" %
                          (client, cn, sa, ra, c18.T, evs[0]["result"], evs[0]["elapsed_ms"]), dict(kind="later", client=client, cfgname=cn, pair=[sa, ra], runs=evs))


def huge_timeout_part(chk, thorough):
    """the wait goes on after a skipped datagram however long the timeout is: sessions with a timeout above 2^32 microseconds, one
    foreign datagram, the matching reply half a second later - delivered (TraceTimeout.tla; three failing runs)"""
    from checks import c18
    std = scripts.std_cfgs()
    for client in ("sync", "async"):
        for cn in (("v2c",) if not thorough else ("v1", "v2c", "v3-md5")):
            evs = []
            for attempt in range(3):
                r = c18.run_case(client, std[cn], (1,), 4, c18.TICK, reply="huge")
                rec2 = trace.Recorder("c04-huge")
                rec2.emit(c18.event(client, cn + "#huge", (1,), 4, *r))
                v2 = trace.validate("TraceTimeout.tla", "TraceTimeout.cfg", rec2.close())
                if attempt == 0:
                    chk.add_tlc(v2["res"], "TraceTimeout(c04 huge timeout %s %s)" % (client, cn))
                    chk.case(("huge-timeout", client, cn), nontrivial=True)
                evs.append(rec2.events[-1])
                if not v2["fails"] or r[0] == "NotRun":
                    break
                if r[0] == "DidNotReturn":
                    evs = evs * 3
                    break
            else:
                pass
            if len(evs) >= 3:
                chk.violation(dict(kind="huge-timeout", client=client, result=evs[0]["result"]),
                              "%s %s, timeout %.1f s: a foreign datagram at 125 ms, the matching reply at 500 ms: %s after %d ms" % (client, cn, c18.HUGE_TIMEOUT_S, evs[0]["result"], evs[0]["elapsed_ms"]),
                              dict(kind="huge", client=client, cfgname=cn, runs=evs))


def replay(path):
    d = json.load(open(path))
    r = d["replay"]
    if r.get("kind") == "huge":
        from checks import c18
        std = scripts.std_cfgs()
        bad = 0
        for _ in range(3):
            x = c18.run_case(r["client"], std[r["cfgname"]], (1,), 4, c18.TICK, reply="huge")
            rec2 = trace.Recorder("c04-huge-replay")
            rec2.emit(c18.event(r["client"], r["cfgname"] + "#huge", (1,), 4, *x))
            bad += 1 if trace.validate("TraceTimeout.tla", "TraceTimeout.cfg", rec2.close())["fails"] else 0
        if bad == 3:
            print("VIOLATION property=C04 replay=%s" % path)
            return 1
        print("replay: accepted")
        return 0
    if r.get("kind") == "overlapping":
        std = scripts.std_cfgs()
        res = overlapping_calls(r["client"], std[r["cfgname"]], r["n"], r["order"])
        print(res)
        if any((exc == "" and got != asked) or (exc != "" and not isexc) for asked, got, exc, isexc in res):
            print("VIOLATION property=C04 replay=%s" % path)
            return 1
        print("replay: accepted")
        return 0
    if r.get("kind") == "later":
        from checks import c18
        std = scripts.std_cfgs()
        bad = 0
        for _ in range(3):
            x = c18.run_pair(r["client"], std[r["cfgname"]], r["pair"][0], r["pair"][1])
            rec2 = trace.Recorder("c04-later-replay")
            rec2.emit(c18.event(r["client"], r["cfgname"], (), r["pair"][1], *x[1]))
            bad += 1 if trace.validate("TraceTimeout.tla", "TraceTimeout.cfg", rec2.close())["fails"] else 0
        if bad == 3:
            print("VIOLATION property=C04 replay=%s" % path)
            return 1
        print("replay: accepted")
        return 0
    if r.get("kind") == "api":
        std = scripts.std_cfgs()
        bad = 0
        for _ in range(3):
            _, _, _, f = api_judge([(r["client"], r["cfgname"], std[r["cfgname"]], r["plan"], r["variant"])], "c04api-replay")
            bad += 1 if f else 0
        if bad == 3:
            print("VIOLATION property=C04 replay=%s" % path)
            return 1
        print("replay: accepted")
        return 0
    chk = Check("C04", "quick")
    chk.states = chk.transitions = 1
    std = scripts.std_cfgs()
    failures, rec, runs = sesscheck.replay_and_judge(chk, "c04-replay", [(r["cfgname"], std[r["cfgname"]], r["script"], v) for v in range(4)])
    for f in failures:
        print("VIOLATION property=C04 replay=%s" % path)
        print("  ", json.dumps(signature(f)))
        return 1
    print("replay: accepted")
    return 0
