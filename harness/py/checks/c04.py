"""C04 - only the reply to the outstanding request is ever delivered.

Session.tla (TLC): DeliverOnlyCurrent, SkipKeepsWaiting, UndecodableEndsCall, LaterMatchDelivered over every
interleaving of sends, receive-loop iterations and injections of the curated fault alphabet.  The same model
exports every completed behaviour as a script; each is replayed on the real raw sockets (every version /
security level), and TraceSession.tla - decoding the logged octets itself - computes the outcome every recv
call had to have from the ids actually seen on the wire."""
import json
from vlib import env, tlc, sesscheck, scripts
from vlib.report import Check
from vlib.env import ToolError, SEED

CFGS_QUICK = ["v1", "v2c", "v3-noauth", "v3-md5", "v3-sha1-aes"]
CFGS_THOROUGH = ["v1", "v2c", "v3-noauth", "v3-md5", "v3-sha1", "v3-md5-des", "v3-sha1-aes", "v3-md5-aes", "v3-sha1-des"]


def signature(f):
    op, consumed, model = f["call"] if f["call"] else ("?", [], "?")
    ev = f["event"]
    got = ev.get("exc") or ("value" if ev.get("ev") == "Recv" else "sent")
    ver = "v3" if f["cfgname"].startswith("v3") else f["cfgname"]
    return dict(ver=ver, ev=ev.get("ev"), consumed="|".join(consumed), model=model, got=got)


def run(tier):
    chk = Check("C04", tier)
    thorough = tier == "thorough"
    chk.rule = ("every completed behaviour of Session.tla (sends, injections of the matching reply / one-field mutants / "
                "stale replies / garbage, receive-loop iterations) within the bound, replayed on real sockets of every "
                "version/security level; distinct = (config, script); non-trivial = the script injects at least one datagram")
    cfgs = CFGS_THOROUGH if thorough else CFGS_QUICK
    # design level
    for cn in (["v2c", "v3-md5", "v3-sha1-aes"] if not thorough else ["v1", "v2c", "v3-noauth", "v3-md5", "v3-sha1-aes"]):
        res = sesscheck.mc_session(chk, cn, 3 if thorough else 2, 3 if thorough else 2, 4 if thorough else 3)
        tlc.require_ok(res, "MC_Session " + cn)
        tlc.require_coverage(res, ["SendRequest", "Inject", "RecvOne", "RecvWouldBlock"], "MC_Session " + cn)
        chk.add_tlc(res, "MC_Session %s" % cn)
    # spec -> impl -> spec
    items = []
    std = scripts.std_cfgs()
    for ci, cn in enumerate(cfgs):
        deep = thorough and cn in ("v1", "v2c", "v3-md5", "v3-sha1-aes")       # three injections: 40k-110k behaviours per configuration
        scr, res = sesscheck.export_scripts(cn, 2, 2, 3 if deep else 2)
        chk.add_tlc(res, "export %s" % cn)
        if thorough:
            scr3, res3 = sesscheck.export_scripts(cn, 3, 2, 2)
            chk.add_tlc(res3, "export3 %s" % cn)
            scr = scr + scr3
        if not thorough and cn not in ("v2c", "v3-md5"):
            scr = [s for si, s in enumerate(scr) if (si + SEED) % 5 == 0]       # quick: sample the other configurations
        for si, s in enumerate(scr):
            items.append((cn, std[cn], s, (si + ci + SEED) % 28))
            chk.case((cn, json.dumps(s, sort_keys=True)), nontrivial=any(a["a"] == "inject" for a in s))
    failures, rec, runs = sesscheck.replay_and_judge(chk, "c04", items)
    for f in failures:
        sig = signature(f)
        chk.violation(sig, "config %s: %s on consumed=[%s] model=%s got=%s" % (f["cfgname"], sig["ev"], sig["consumed"], sig["model"], sig["got"]),
                      dict(cfgname=f["cfgname"], script=f["script"], failing_event=f["event"]))
    chk.sample(dict(kind="script", cfg=items[len(items) // 2][0], script=items[len(items) // 2][2]))
    chk.sample(dict(kind="trace-events", events=rec.events[1:4]))
    chk.assumptions += ["loopback UDP preserves order and does not drop (single-threaded stepping)",
                        "HMAC/DES/AES interpreted by the reference implementations (hashlib / refcrypto)"]
    return chk.finish()


def replay(path):
    d = json.load(open(path))
    r = d["replay"]
    chk = Check("C04", "quick")
    chk.states = chk.transitions = 1
    std = scripts.std_cfgs()
    failures, rec, runs = sesscheck.replay_and_judge(chk, "c04-replay", [(r["cfgname"], std[r["cfgname"]], r["script"], v) for v in range(4)])
    for f in failures:
        print("VIOLATION property=C04 replay=%s" % path)
        print("  ", json.dumps(signature(f)))
        return 1
    print("replay: accepted")
    return 0
