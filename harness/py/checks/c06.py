"""C06 - a walk never leaves its subtree, never goes backwards, always ends.

Walk.tla (TLC): YieldInsideSubtree, YieldStrictlyIncreasing, FollowUpIsLastAccepted, BoundedProgress,
StopsOnNoData against an agent that may answer ANY list of (OID, value | NULL | exception) pairs.  Every
transition of the model's state graph (state x reply) is turned into one implementation test: the reply sequence
of a shortest path to the source state, then the reply, is played by a scripted agent to the REAL SnmpSession
iterators (getnext and getbulk, sync and async, v1/v2c/v3); simulated longer reply sequences and random replies
are added.  TraceSession.tla judges requests (follow-up = last accepted OID; none after the end), yields (inside,
strictly increasing, exact values, in reply order) and termination; a walk that does not stop is reported."""
import json, asyncio, random
from vlib import env, tlc, trace, graph, scripts, apidrv, walks, agent as ag, sesscheck
from vlib.report import Check, confirm_by_replay, timing_event
from vlib.env import ToolError, SEED
from checks import c05

P = [43, 6, 1, 4, 1, 206, 15]
NAMES = {(1, 2): bytes(P + [4]), (1, 3): bytes(P + [5]), (1, 3, 1): bytes(P + [5, 1]), (1, 3, 2): bytes(P + [5, 2]), (1, 4): bytes(P + [6])}
BASE_TEXT = "1.3.6.1.4.1.9999.5"
# a second concrete universe with multi-octet sub-identifiers whose encodings share lead octets
# (128 = 81 00, 16384 = 81 80 00): byte order and arc order differ there
NAMES2 = {(1, 2): bytes(P + [4, 0x81, 0x00]), (1, 3): bytes(P + [5]), (1, 3, 1): bytes(P + [5, 0x81, 0x00, 10, 0, 0, 5]),
          (1, 3, 2): bytes(P + [5, 0x81, 0x80, 0x00, 10, 0, 0, 4]), (1, 4): bytes(P + [6])}
# a third one whose BASE has sub-identifiers on both sides of the base-128 length steps (127 = 7f, 128 = 81 00, 16383 = ff 7f):
# the root of the walk is encoded by the library from text, the replies come in canonical form from the agent
Q = [43, 6, 1, 2, 1, 127, 0x81, 0x00, 0xFF, 0x7F]
NAMES3 = {(1, 2): bytes(Q + [4]), (1, 3): bytes(Q + [5]), (1, 3, 1): bytes(Q + [5, 127]), (1, 3, 2): bytes(Q + [5, 0x81, 0x00]), (1, 4): bytes(Q + [6])}
BASE3_TEXT = "1.3.6.1.2.1.127.128.16383.5"
# a fourth one whose in-subtree names are LONG: 70 arcs of 300 / 25 arcs of 2^32-1 (142 / 127 content octets; a name may have 128 arcs
# of up to 2^32-1, i.e. up to 636 content octets - limits counted in arcs are not limits in octets)
LONG_A = [0x82, 0x2C] * 70
LONG_B = [0x8F, 0xFF, 0xFF, 0xFF, 0x7F] * 25
NAMES4 = {(1, 2): bytes(P + [4]), (1, 3): bytes(P + [5]), (1, 3, 1): bytes(P + [5] + LONG_A + [1]), (1, 3, 2): bytes(P + [5] + LONG_A + [2] + LONG_B), (1, 4): bytes(P + [6])}
UNIVERSES = [(BASE_TEXT, NAMES), (BASE_TEXT, NAMES2), (BASE3_TEXT, NAMES3), (BASE_TEXT, NAMES4)]
NU = len(UNIVERSES)


def export(bulk, maxvb):
    c = dict(Bulk=bulk, MaxReplies=100, MaxVb=maxvb, DEV_NoMonotoneCheck=False)
    p = sesscheck.write_cfg(sesscheck.cfg_text(c, view="ExportView", spec="ExportSpec"), "MC_Walk_export_%s.cfg" % bulk)
    res = tlc.run_tlc("MC_Walk.tla", p, workers=1, timeout=1800, coverage=False)
    tlc.require_ok(res, "walk export")
    trs = [x for x in res.printed if isinstance(x, dict) and "act" in x]
    seen, uniq = set(), []
    for t in trs:
        k = graph.key(t)
        if k not in seen:
            seen.add(k)
            uniq.append(t)
    return uniq, res


def scripts_from(transitions):
    init = graph.key({"last": [1, 3], "pybuf": [], "stopped": False, "willStop": False})
    paths = graph.shortest_paths(transitions, init)
    out = []
    for t in transitions:
        if t["act"] != "reply":
            continue
        fk = graph.key(t["from"])
        if fk not in paths:
            raise ToolError("unreachable state in walk graph")
        replies = [x["r"] for x in paths[fk] if x["act"] == "reply"] + [t["r"]]
        out.append(replies)
    return out


def error_scripts():
    """replies without data values that are not plain empty lists: tooBig / genErr / noSuchName with an empty varbind list (once, and
    from some point on for every request), and lost replies - the walk ends (or ends with an error); it does not go on asking"""
    v1 = [{"oid": [1, 3, 1], "kind": "val"}]
    v2 = [{"oid": [1, 3, 2], "kind": "val"}]
    out = []
    for tail in ("toobig", "generr", "nosuchname", "toobig-forever", "generr-forever", "drop"):
        out.append([tail])
        out.append([v1, tail])
        out.append([v1, v2, tail])
        out.append([v1, tail, v2])
    return out


def random_script(rng):
    univ = list(NAMES)
    n = rng.randrange(1, 5)
    out = []
    for _ in range(n):
        out.append([{"oid": list(rng.choice(univ)), "kind": rng.choice(["val", "val", "val", "null", "exc"])} for _ in range(rng.randrange(0, 5))])
    return out


async def run_async(rec, cfg, items, uni=0):
    runs = []
    for k, (op, script) in enumerate(items):
        a = rec.n
        agent = ag.Agent(engine=cfg.engine or None) if cfg.engine else ag.Agent()
        state = {"resp": lambda req: []}
        api = await apidrv.AsyncApi.create(rec, cfg, lambda req: state["resp"](req), timeout=1.0)
        base_text, names = UNIVERSES[(k + uni) % NU]
        state["resp"] = walks.scripted_responder(agent, api.cfgref, script, names)
        await walks.walk_async(api, op, base_text, 3 if op == "getbulk" else None, limit=40, style=walks.STYLES[len(json.dumps(script)) % 4])
        api.close()
        runs.append((a, rec.n, dict(kind="async", ver=cfg.ver, op=op, script=script, universe=(k + uni) % NU)))
    return runs


def run_sync(rec, cfg, items, uni=0):
    runs = []
    for k, (op, script) in enumerate(items):
        a = rec.n
        agent = ag.Agent(engine=cfg.engine or None) if cfg.engine else ag.Agent()
        state = {"resp": lambda req: []}
        api = apidrv.SyncApi(rec, cfg, lambda req: state["resp"](req), timeout=1.0)
        base_text, names = UNIVERSES[(k + uni) % NU]
        state["resp"] = walks.scripted_responder(agent, api.cfgref, script, names)
        walks.walk_sync(api, op, base_text, 3 if op == "getbulk" else None, limit=40, style=walks.STYLES[(len(json.dumps(script)) + 1) % 4])
        api.close()
        runs.append((a, rec.n, dict(kind="sync", ver=cfg.ver, op=op, script=script, universe=(k + uni) % NU)))
    return runs


def shape(script):
    """abstract shape of the reply script: does it contain a repeated / decreasing / outside OID with a value"""
    seen_max = (1, 3)
    kinds = set()
    for r in script:
        if isinstance(r, str):
            kinds.add("error-reply:" + r)
            continue
        for x in r:
            o = tuple(x["oid"])
            if x["kind"] != "val":
                kinds.add(x["kind"])
                continue
            if o[:2] != (1, 3):
                kinds.add("outside")
            elif o <= seen_max:
                kinds.add("non-increasing")
            else:
                seen_max = o
    return "+".join(sorted(kinds)) or "plain"


def run(tier):
    chk = Check("C06", tier)
    thorough = tier == "thorough"
    rng = random.Random(SEED)
    chk.rule = ("one implementation test per (state, reply) transition of Walk.tla (replies of <= 2 (thorough 3) pairs over 5 OIDs x {value, NULL, exception}), "
                "reached by a shortest path, for getnext and getbulk through the real sync/async iterators, plus random reply scripts; "
                "distinct = (client, version, op, script); non-trivial = script with at least one value-bearing varbind")
    items = []
    for bulk in (True, False):
        res = c05.mc_walk(bulk, 3, 2 if not thorough else 3)
        tlc.require_ok(res, "MC_Walk")
        tlc.require_coverage(res, ["Pop", "BulkRound" if bulk else "NextRound"], "MC_Walk")
        chk.add_tlc(res, "MC_Walk bulk=%s" % bulk)
        trs, xres = export(bulk, 2 if not thorough else 3)
        chk.add_tlc(xres, "walk graph export bulk=%s" % bulk)
        for s in scripts_from(trs):
            items.append(("getbulk" if bulk else "getnext", s))
    for _ in range(300 if not thorough else 5000):
        items.append((rng.choice(["getbulk", "getnext"]), random_script(rng)))
    std = scripts.std_cfgs()
    rec = trace.Recorder("c06")
    runs = []
    runs += asyncio.run(run_async(rec, std["v2c"], items, 0))
    runs += asyncio.run(run_async(rec, std["v2c"], items if thorough else items[::2], 1))      # the other universes
    runs += asyncio.run(run_async(rec, std["v2c"], items if thorough else items[1::2], 2))
    runs += asyncio.run(run_async(rec, std["v2c"], items if thorough else items[::3], 3))
    pick = lambda n, off: [x for i, x in enumerate(items) if thorough or (i + off + SEED) % n == 0]
    runs += run_sync(rec, std["v2c"], pick(3, 0))
    runs += run_sync(rec, std["v1"], [x for x in pick(6, 1) if x[0] == "getnext"])
    runs += asyncio.run(run_async(rec, std["v3-md5-des"], pick(8, 2)))
    runs += run_sync(rec, std["v3-noauth"], pick(12, 3))
    # replies that carry an error-status and no varbinds, and lost replies
    err_items = [(op, sc) for op in ("getbulk", "getnext") for sc in error_scripts()]
    runs += asyncio.run(run_async(rec, std["v2c"], err_items, 0))
    runs += run_sync(rec, std["v2c"], err_items, 1)
    runs += asyncio.run(run_async(rec, std["v3-md5-des"], err_items[::3], 2))
    runs += run_sync(rec, std["v1"], [x for x in err_items if x[0] == "getnext"][::2], 0)
    # several walks alive in one process (abandoned / nested / interleaved; one session or two): what a walk yields comes from the
    # replies to ITS requests only - never rows another walk left behind
    runs += c05.multi_runs(rec, thorough)
    rec.close()
    print("  %d walks, %d events" % (len(runs), rec.n), flush=True)
    v = trace.validate_parallel("TraceSession.tla", "TraceSession.cfg", rec.events, [(a, b) for a, b, _ in runs], k=14, name="c06")
    for i, r in enumerate(v["results"]):
        chk.add_tlc(r, "TraceSession(c06)#%d" % i)
    chk.traces += len(runs)
    for a, b, info in runs:
        if "multi" in info:
            chk.case(("multi", info["kind"], info["cfg"], info["multi"], info["variant"], info["two"]))
            continue
        chk.case((info["kind"], info["ver"], info["op"], json.dumps(info["script"])), nontrivial=any(x["kind"] == "val" for r in info["script"] if not isinstance(r, str) for x in r))
    ri = 0
    for idxf in v["fails"]:
        while runs[ri][1] <= idxf:
            ri += 1
        a, b, info = runs[ri]
        ev = rec.events[idxf]
        if "multi" in info:
            chk.violation(dict(multi=info["multi"], client=info["kind"], ev=ev["ev"], got=ev.get("exc") or "ok"),
                          "%s %s, two walks %s (%s, variant %d): %s of walk %s: %s" % (info["kind"], info["cfg"], info["multi"], "two sessions" if info["two"] else "one session",
                          info["variant"], ev["ev"], ev.get("sid"), ev.get("exc") or json.dumps(ev.get("res"))[:100]),
                          dict(info=info), confirm=(confirm_by_replay(c05.replay, dict(info=info)) if timing_event(ev) else None))
            continue
        sig = dict(op=info["op"], ev=ev["ev"], got=ev.get("exc") or "ok", shape=shape(info["script"]))
        chk.violation(sig, "%s %s %s walk, agent script %s: %s %s" % (info["kind"], info["ver"], info["op"], json.dumps(info["script"])[:160], ev["ev"], ev.get("exc") or json.dumps(ev.get("res"))[:80]),
                      dict(info=info), confirm=(confirm_by_replay(replay, dict(info=info)) if timing_event(ev) else None))
    chk.sample(dict(kind="script", op=items[40][0], replies=items[40][1]))
    return chk.finish()


def replay(path):
    d = json.load(open(path))
    info = d["replay"]["info"]
    if "multi" in info:
        rc = c05.replay(path)
        if rc == 1:
            print("VIOLATION property=C06 replay=%s" % path)
        return rc
    std = scripts.std_cfgs()
    cfgname = {"v1": "v1", "v2c": "v2c"}.get(info["ver"], "v3-md5-des")
    rec = trace.Recorder("c06-replay")
    if info["kind"] == "async":
        asyncio.run(run_async(rec, std[cfgname], [(info["op"], info["script"])], info.get("universe", 0)))
    else:
        run_sync(rec, std[cfgname], [(info["op"], info["script"])], info.get("universe", 0))
    v = trace.validate("TraceSession.tla", "TraceSession.cfg", rec.close())
    if v["accepted"] and not v["fails"]:
        print("replay: accepted")
        return 0
    print("VIOLATION property=C06 replay=%s" % path)
    return 1
