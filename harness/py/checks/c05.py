"""C05 - a walk returns the whole subtree, in order, once - by GetNext or GetBulk.

Mibs.tla (TLC) enumerates every MIB over a 9-name universe (multi-octet arcs, nested subtrees, entries before and
after the subtree) x 7 base OIDs and computes the list a correct walk must yield.  An honest RFC 3416 agent
(GetNext, GetBulk with any max-repetitions and agent-side cap, endOfMibView / v1 noSuchName at the end) serves
each MIB to the REAL SnmpSession iterators (getnext, getbulk, fetch; sync and async; v1, v2c, v3).  The recorded
trace (requests, replies, yields, end) is judged by TraceSession.tla: every follow-up asks for the last accepted
OID with the right PDU type / max-repetitions, every yield is the next pair of the reply with its exact value,
and at the end yielded = Subtree(MIB, base).  Walk.tla (TLC) is the design-level model of the iterator."""
import json, asyncio
from vlib import env, tlc, trace, corpus, scripts, apidrv, walks, agent as ag, sesscheck
from vlib import refcodec as rc
from vlib.report import Check, confirm_by_replay, timing_event
from vlib.env import ToolError, SEED


def mc_walk(bulk, maxreplies, maxvb, dev=False):
    c = dict(Bulk=bulk, MaxReplies=maxreplies, MaxVb=maxvb, DEV_NoMonotoneCheck=dev)
    p = sesscheck.write_cfg(sesscheck.cfg_text(c, invariants=["TypeOK", "YieldInsideSubtree", "YieldStrictlyIncreasing", "FollowUpIsLastAccepted", "BoundedProgress"],
                                               properties=["StopsOnNoData"], view="View"), "MC_Walk_%s.cfg" % ("bulk" if bulk else "next"))
    return tlc.run_tlc("MC_Walk.tla", p, workers=8, timeout=1800)


def plan_for(entry, k, thorough, ver="v2c"):
    """walks to run for one (MIB, base): (op, maxrep, cap, fetch)"""
    out = [("getnext", None, 1, False)]
    combos = [(m, c) for m in (1, 2, 3) for c in (1, 2, 3)]
    if not thorough:
        combos = [combos[(k + j * 4) % 9] for j in range(2)]
    out += [("getbulk", m, c, False) for m, c in combos]
    if thorough or k % 4 == 0 or ver == "v1":
        out.append(("getbulk", 20, 3, True))          # fetch(): default max_repetitions 20 (GetNext on v1)
    if thorough or k % 5 == 1:
        out.append(("getbulk", [127, 128, 200, 255, 256, 65535][k % 6], 3, False))     # repetition counts around the INTEGER length steps
    return out


async def run_async(rec, cfg, items, thorough):
    runs = []
    for k, e in items:
        a = rec.n
        cfgref_holder = {}
        agent = ag.Agent(engine=cfg.engine or None) if cfg.engine else ag.Agent()
        state = {"resp": lambda req: []}
        api = await apidrv.AsyncApi.create(rec, cfg, lambda req: state["resp"](req), timeout=1.0)
        for op, m, cap, fetch in plan_for(e, k, thorough, cfg.ver):
            if cfg.ver == "v1" and op == "getbulk" and not fetch:
                continue
            state["resp"] = walks.honest_responder(agent, api.cfgref, e["mib"], cap)
            real_op = "getnext" if (cfg.ver == "v1") else op
            await walks.walk_async(api, real_op, bytes(e["basetext"]).decode(), m if real_op == "getbulk" else None, honest=True, mib=e["mib"], fetch=fetch,
                                   style=walks.STYLES[(len(e["mib"]) + len(e["base"]) + (m or 0)) % 4])
        api.close()
        runs.append((a, rec.n, dict(kind="async", ver=cfg.ver, entry=e)))
    return runs


def multi_mib():
    from vlib import refcodec as rc
    rows_a = [1, 2, 3, 4, 5, 6, 127, 128, 200, 1000, 1001, 16384]
    rows_b = [1, 2, 3, 200, 201, 202, 300, 301, 400]
    names = [[1, 3, 6, 1, 4, 1, 9999, 7, 1, i] for i in rows_a] + [[1, 3, 6, 1, 4, 1, 9999, 7, 2, i] for i in rows_b] + [[1, 3, 6, 1, 4, 1, 9999, 8, 1]]
    return [list(rc.oid_content(n)) for n in names]


def long_name_runs(rec, thorough):
    """honest agent over a MIB whose names are long: many arcs, large arcs, and both (127 .. 636 content octets; a name has up to
    128 arcs of up to 2^32-1) - in the walked subtree and right after it"""
    std = scripts.std_cfgs()
    pre = [1, 3, 6, 1, 4, 1, 9999, 7, 3]
    rows = [pre + [1] + [1] * 110,                       # 128 arcs, all small: 127 octets
            pre + [1] + [300] * 60 + [1],                # 71 arcs: ~130 octets
            pre + [1] + [300] * 60 + [2],
            pre + [2] + [4294967295] * 25 + [7],         # 35 arcs: ~135 octets
            pre + [2] + [4294967295] * 25 + [8, 1],
            pre + [3] + [4294967295] * 118,              # 128 arcs of 2^32-1: 598 octets
            [1, 3, 6, 1, 4, 1, 9999, 7, 4] + [16384] * 50]   # after the subtree
    mib = [list(rc.oid_content(n)) for n in rows]
    base = ".".join(str(x) for x in pre)
    runs = []
    specs = [("getnext", None, False), ("getbulk", 2, False), ("getbulk", 20, True), ("getbulk", 50, False)]

    async def one_async(cfg, spec):
        a = rec.n
        holder = {}
        api = await apidrv.AsyncApi.create(rec, cfg, lambda req: holder["r"](req), timeout=1.0)
        agent = ag.Agent(engine=cfg.engine or None) if cfg.engine else ag.Agent()
        holder["r"] = walks.honest_responder(agent, api.cfgref, mib, 3)
        op, m, fetch = spec
        real_op = "getnext" if cfg.ver == "v1" else op
        await walks.walk_async(api, real_op, base, (20 if fetch else m) if real_op == "getbulk" else None, honest=True, mib=mib, fetch=fetch)
        api.close()
        return a, rec.n
    for client in ("sync", "async"):
        for cn in (("v2c", "v3-md5") if not thorough else ("v2c", "v1", "v3-md5", "v3-sha1-aes")):
            cfg = std[cn]
            for spec in specs:
                if cfg.ver == "v1" and spec[0] == "getbulk" and not spec[2]:
                    continue
                if client == "async":
                    a, b = asyncio.run(one_async(cfg, spec))
                else:
                    a = rec.n
                    holder = {}
                    api = apidrv.SyncApi(rec, cfg, lambda req: holder["r"](req), timeout=1.0)
                    agent = ag.Agent(engine=cfg.engine or None) if cfg.engine else ag.Agent()
                    holder["r"] = walks.honest_responder(agent, api.cfgref, mib, 3)
                    op, m, fetch = spec
                    real_op = "getnext" if cfg.ver == "v1" else op
                    walks.walk_sync(api, real_op, base, (20 if fetch else m) if real_op == "getbulk" else None, honest=True, mib=mib, fetch=fetch)
                    api.close()
                    b = rec.n
                runs.append((a, b, dict(kind=client, ver=cfg.ver, lossy=dict(cfg=cn, spec=list(spec), drop_at=0, long_names=True))))
    return runs


def lossy_runs(rec, thorough):
    """honest agent, but one request of the walk (the 2nd or 3rd) is never answered: the walk yields what it had accepted, in order,
    and ends with TimeoutError - it does not start over, repeat entries or go on by other means"""
    std = scripts.std_cfgs()
    mib = multi_mib()
    base = "1.3.6.1.4.1.9999.7.1"
    specs = [("getbulk", 3, True), ("getbulk", 3, False), ("getnext", None, False), ("getbulk", 20, True)]
    runs = []

    def lossy(inner, drop_at):
        st = {"k": 0}

        def respond(req):
            if req.broken or not req.names:
                return inner(req)
            st["k"] += 1
            if st["k"] == drop_at:
                return []
            return inner(req)
        return respond
    plans = [(client, cn, spec, drop_at) for client in ("sync", "async") for cn in (("v2c", "v3-md5") if not thorough else ("v2c", "v1", "v3-md5", "v3-sha1-aes"))
             for spec in specs for drop_at in ((2,) if not thorough else (2, 3))]

    async def one_async(cfg, spec, drop_at):
        a = rec.n
        holder = {}
        api = await apidrv.AsyncApi.create(rec, cfg, lambda req: holder["r"](req), timeout=0.3, max_repetitions=4)
        agent = ag.Agent(engine=cfg.engine or None) if cfg.engine else ag.Agent()
        holder["r"] = lossy(walks.honest_responder(agent, api.cfgref, mib, 3), drop_at)
        op, m, fetch = spec
        real_op = "getnext" if cfg.ver == "v1" else op
        await walks.walk_async(api, real_op, base, (4 if fetch else m) if real_op == "getbulk" else None, honest=True, mib=mib, fetch=fetch)
        api.close()
        return a, rec.n
    for client, cn, spec, drop_at in plans:
        cfg = std[cn]
        if cfg.ver == "v1" and spec[0] == "getbulk" and not spec[2]:
            continue
        if client == "async":
            a, b = asyncio.run(one_async(cfg, spec, drop_at))
        else:
            a = rec.n
            holder = {}
            api = apidrv.SyncApi(rec, cfg, lambda req: holder["r"](req), timeout=0.3, max_repetitions=4)
            agent = ag.Agent(engine=cfg.engine or None) if cfg.engine else ag.Agent()
            holder["r"] = lossy(walks.honest_responder(agent, api.cfgref, mib, 3), drop_at)
            op, m, fetch = spec
            real_op = "getnext" if cfg.ver == "v1" else op
            walks.walk_sync(api, real_op, base, (4 if fetch else m) if real_op == "getbulk" else None, honest=True, mib=mib, fetch=fetch)
            api.close()
            b = rec.n
        runs.append((a, b, dict(kind=client, ver=cfg.ver, lossy=dict(cfg=cn, spec=list(spec), drop_at=drop_at))))
    return runs


MULTI_KINDS = ["abandon", "nested", "interleave", "abandon-twice"]


def multi_specs(variant, ver, mib):
    a, b = "1.3.6.1.4.1.9999.7.1", "1.3.6.1.4.1.9999.7.2"
    if ver == "v1":
        return [("getnext", a, None, mib, False), ("getnext", b, None, mib, False)]
    table = [[("getbulk", a, 8, mib, False), ("getbulk", b, 5, mib, False)],
             [("getbulk", a, 20, mib, True), ("getbulk", b, 3, mib, False)],          # fetch() + getbulk()
             [("getbulk", a, 6, mib, False), ("getnext", b, None, mib, False)],
             [("getnext", a, None, mib, False), ("getbulk", b, 4, mib, False)]]
    return table[variant % len(table)]


def run_multi_sync(rec, cfg, kind, variant, two_sessions):
    """several walks alive in one process (abandoned / nested / interleaved), on one session or on two"""
    a = rec.n
    mib = multi_mib()
    agent = ag.Agent(engine=cfg.engine or None) if cfg.engine else ag.Agent()
    apis = []
    for i in range(2 if two_sessions else 1):
        holder = {}
        api = apidrv.SyncApi(rec, cfg, lambda req, h=holder: h["r"](req), sid=i + 1, timeout=1.0, max_repetitions=20)
        holder["r"] = walks.honest_responder(agent, api.cfgref, mib, 8)
        apis.append(api)
    walks.multi_walk_sync(apis, multi_specs(variant, cfg.ver, mib), kind)
    for api in apis:
        api.close()
    return a, rec.n


async def run_multi_async(rec, cfg, kind, variant, two_sessions):
    a = rec.n
    mib = multi_mib()
    agent = ag.Agent(engine=cfg.engine or None) if cfg.engine else ag.Agent()
    apis = []
    for i in range(2 if two_sessions else 1):
        holder = {}
        api = await apidrv.AsyncApi.create(rec, cfg, lambda req, h=holder: h["r"](req), sid=i + 1, timeout=1.0, max_repetitions=20)
        holder["r"] = walks.honest_responder(agent, api.cfgref, mib, 8)
        apis.append(api)
    await walks.multi_walk_async(apis, multi_specs(variant, cfg.ver, mib), kind)
    for api in apis:
        api.close()
    return a, rec.n


def multi_runs(rec, thorough):
    std = scripts.std_cfgs()
    out = []
    todo = []
    for ci, cn in enumerate(["v2c", "v3-md5", "v1"]):
        for ki, kind in enumerate(MULTI_KINDS):
            for variant in range(4 if cn != "v1" else 1):
                for two in (False, True):
                    if std[cn].ver == "v3" and not two:
                        continue      # a v3 session carries USM state (boots / time) from one walk's replies into the other's requests:
                                      # its walks cannot be judged as independent trace sessions; one-session histories run on v1 / v2c
                    if not thorough and cn != "v2c" and (ki + variant + ci + int(two)) % 3:
                        continue
                    todo.append((cn, kind, variant, two))
    async def go(items):
        res = []
        for (cn, kind, variant, two) in items:
            a, b = await run_multi_async(rec, std[cn], kind, variant, two)
            res.append((a, b, dict(kind="async", ver=std[cn].ver, multi=kind, variant=variant, two=two, cfg=cn)))
        return res
    out += asyncio.run(go(todo[1::2]))
    for (cn, kind, variant, two) in todo[0::2]:
        a, b = run_multi_sync(rec, std[cn], kind, variant, two)
        out.append((a, b, dict(kind="sync", ver=std[cn].ver, multi=kind, variant=variant, two=two, cfg=cn)))
    return out


def run_sync(rec, cfg, items, thorough):
    runs = []
    for k, e in items:
        a = rec.n
        agent = ag.Agent(engine=cfg.engine or None) if cfg.engine else ag.Agent()
        state = {"resp": lambda req: []}
        api = apidrv.SyncApi(rec, cfg, lambda req: state["resp"](req), timeout=1.0)
        for op, m, cap, fetch in plan_for(e, k, thorough, cfg.ver):
            if cfg.ver == "v1" and op == "getbulk" and not fetch:
                continue
            state["resp"] = walks.honest_responder(agent, api.cfgref, e["mib"], cap)
            real_op = "getnext" if (cfg.ver == "v1") else op
            walks.walk_sync(api, real_op, bytes(e["basetext"]).decode(), m if real_op == "getbulk" else None, honest=True, mib=e["mib"], fetch=fetch,
                            style=walks.STYLES[(len(e["mib"]) + len(e["base"]) + (m or 0) + 1) % 4])
        api.close()
        runs.append((a, rec.n, dict(kind="sync", ver=cfg.ver, entry=e)))
    return runs


def run(tier):
    chk = Check("C05", tier)
    thorough = tier == "thorough"
    chk.rule = ("every (MIB subset of a 7-name universe, base OID) pair from Mibs.tla walked with getnext, getbulk (max_repetitions x agent cap in 1..3) "
                "and fetch through the real sync and async SnmpSession over v1/v2c/v3 against an honest agent; distinct = (client, version, MIB, base); "
                "non-trivial = the subtree below the base is non-empty")
    for bulk in (True, False):
        res = mc_walk(bulk, 3, 2 if not thorough else 3)
        tlc.require_ok(res, "MC_Walk")
        chk.add_tlc(res, "MC_Walk bulk=%s" % bulk)
    table, res = corpus.generate("Mibs.tla", ["Wire.tla", "SNMP.tla", "BER.tla", "Octets.tla"], "CONSTANTS MinSize = 0\n")
    if res:
        chk.add_tlc(res, "Mibs.tla")
    entries = [t for t in table if "mib" in t]
    if len(entries) < 4000:
        raise ToolError("MIB table incomplete")
    std = scripts.std_cfgs()
    rec = trace.Recorder("c05")
    runs = []
    idx = list(enumerate(entries))
    # async v2c: everything; other combinations sampled (quick) or complete (thorough)
    runs += asyncio.run(run_async(rec, std["v2c"], idx if thorough else [x for x in idx if (x[0] + SEED) % 3 == 0], thorough))
    samp = lambda n, off: [x for x in idx if thorough or (x[0] + off + SEED) % n == 0]
    runs += run_sync(rec, std["v2c"], samp(9, 0), thorough)
    runs += run_sync(rec, std["v1"], samp(20, 1), thorough)
    runs += asyncio.run(run_async(rec, std["v1"], samp(20, 2), thorough))
    runs += asyncio.run(run_async(rec, std["v3-md5-aes"], samp(20, 3), thorough))
    runs += run_sync(rec, std["v3-sha1-des"], samp(28, 4), thorough)
    runs += asyncio.run(run_async(rec, std["v3-noauth"], samp(28, 5), thorough))
    # several walks alive in one process: abandoned / nested / interleaved, on one session or two (each walk its own trace session)
    runs += multi_runs(rec, thorough)
    runs += lossy_runs(rec, thorough)
    runs += long_name_runs(rec, thorough)
    rec.close()
    nwalks = sum(1 for e in rec.events if e["ev"] == "WalkStart")
    print("  %d sessions, %d walks, %d events" % (len(runs), nwalks, rec.n), flush=True)
    v = trace.validate_parallel("TraceSession.tla", "TraceSession.cfg", rec.events, [(a, b) for a, b, _ in runs], k=14, name="c05")
    for i, r in enumerate(v["results"]):
        chk.add_tlc(r, "TraceSession(c05)#%d" % i)
    chk.traces += nwalks
    for a, b, info in runs:
        if "multi" in info:
            chk.case(("multi", info["kind"], info["cfg"], info["multi"], info["variant"], info["two"]), n=2)
            continue
        if "lossy" in info:
            chk.case(("lossy", info["kind"], json.dumps(info["lossy"])), nontrivial=True)
            continue
        chk.case((info["kind"], info["ver"], json.dumps(info["entry"]["mib"]), json.dumps(info["entry"]["base"])), nontrivial=len(info["entry"]["expect"]) > 0,
                 n=sum(1 for e in rec.events[a:b] if e["ev"] == "WalkStart"))
    ri = 0
    for idxf in v["fails"]:
        while runs[ri][1] <= idxf:
            ri += 1
        a, b, info = runs[ri]
        ev = rec.events[idxf]
        ws = [e for e in rec.events[a:idxf + 1] if e["ev"] == "WalkStart"]
        op = ws[-1]["op"] if ws else "?"
        sig = dict(client=info["kind"], ver=info["ver"], op=op, ev=ev["ev"], got=ev.get("exc") or "ok")
        if "lossy" in info:
            lo = info["lossy"]
            sig["lossy"] = True
            chk.violation(sig, ("%s %s %s%s over a MIB of long names (drop %d): %s %s" if lo.get("long_names") else "%s %s %s%s, request #%d of the walk never answered: %s %s") % (info["kind"], lo["cfg"], "fetch" if lo["spec"][2] else lo["spec"][0],
                          "" if lo["spec"][1] is None else "(%d)" % lo["spec"][1], lo["drop_at"], ev["ev"], ev.get("exc") or json.dumps(ev.get("res"))[:100]),
                          dict(info=info, events=rec.events[a:idxf + 1][-12:]))
            continue
        if "multi" in info:
            sig["multi"] = info["multi"]
            chk.violation(sig, "%s %s, two walks %s (%s, variant %d): %s of walk %s: %s" % (info["kind"], info["cfg"], info["multi"], "two sessions" if info["two"] else "one session",
                          info["variant"], ev["ev"], ev.get("sid"), ev.get("exc") or json.dumps(ev.get("res"))[:100]),
                          dict(info=info, events=rec.events[a:idxf + 1][-12:]), confirm=(confirm_by_replay(replay, dict(info=info)) if timing_event(ev) else None))
            continue
        chk.violation(sig, "%s %s %s walk of base %s over MIB of %d entries: %s %s" % (info["kind"], info["ver"], op, bytes(info["entry"]["basetext"]).decode(),
                                                                                  len(info["entry"]["mib"]), ev["ev"], ev.get("exc") or json.dumps(ev.get("res"))[:100]),
                      dict(info=info, events=rec.events[a:idxf + 1][-12:]), confirm=(confirm_by_replay(replay, dict(info=info)) if timing_event(ev) else None))
    chk.sample(dict(kind="mib-base", entry=entries[500]))
    chk.extra["mib_base_pairs"] = len(entries)
    chk.sample(dict(kind="events", events=[{k: (x if k not in ("wire", "dgram", "interp", "mib") else "...") for k, x in e.items()} for e in rec.events[runs[300][0]:runs[300][0] + 8]]))
    return chk.finish()


def replay(path):
    d = json.load(open(path))
    info = d["replay"]["info"]
    std = scripts.std_cfgs()
    cfgname = {"v1": "v1", "v2c": "v2c"}.get(info["ver"], "v3-md5-aes")
    rec = trace.Recorder("c05-replay")
    if "lossy" in info and info["lossy"].get("long_names"):
        long_name_runs(rec, False)
    elif "lossy" in info:
        lossy_runs(rec, False)
    elif "multi" in info:
        if info["kind"] == "async":
            asyncio.run(run_multi_async(rec, std[info["cfg"]], info["multi"], info["variant"], info["two"]))
        else:
            run_multi_sync(rec, std[info["cfg"]], info["multi"], info["variant"], info["two"])
    elif info["kind"] == "async":
        runs = asyncio.run(run_async(rec, std[cfgname], [(0, info["entry"])], True))
    else:
        runs = run_sync(rec, std[cfgname], [(0, info["entry"])], True)
    v = trace.validate("TraceSession.tla", "TraceSession.cfg", rec.close())
    if v["accepted"] and not v["fails"]:
        print("replay: accepted")
        return 0
    print("VIOLATION property=C05 replay=%s" % path)
    return 1
