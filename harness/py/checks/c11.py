"""C11 - encrypted payloads are exactly the scoped PDU under RFC 3414 / 3826, whatever happened before.

Privacy.tla (TLC): PayloadIsScopedPdu / SaltFresh / NoSpuriousRefusal over every history of sends, encrypted
replies, plaintext reports, timeouts and key installations.  Every behaviour within the bound is replayed on a
real v3 socket (DES and AES, MD5 and SHA-1, password / master / localized keys); each emitted message is
decrypted by the reference cipher under the independently derived key and TraceSession.tla requires the
plaintext to decode to exactly the scoped PDU of the request followed by less than one block of padding; agent
replies encrypted the same way must be delivered with their exact content."""
import json
from vlib import env, tlc, trace, sesscheck, scripts, v3hist, rawdrv, agent as ag
from vlib.report import Check, confirm_by_replay, timing_event
from vlib.env import ToolError, SEED

PROP = "C11"
PROPS = '{"C11"}'
CIPHER_CFGS = {"des": ["v3-md5-des", "v3-sha1-des"], "aes": ["v3-sha1-aes", "v3-md5-aes"]}


def mc_privacy(cipher, steps, dev=False, export=False, dev_pad=False):
    c = dict(Cipher=cipher, M=8, PduLens="{5, 8, 40}", MaxBuf=64, MaxSteps=steps, DEV_DesNoReset=dev, DEV_PadOnce=dev_pad)
    lines = ["SPECIFICATION Spec", "CONSTANTS"]
    for k, v in c.items():
        if isinstance(v, bool):
            v = "TRUE" if v else "FALSE"
        elif isinstance(v, str) and not v.startswith("{"):
            v = '"%s"' % v
        lines.append("  %s = %s" % (k, v))
    if export:
        lines.append("INVARIANTS ExportDone")
    else:
        lines += ["VIEW View", "INVARIANTS PayloadIsScopedPdu SaltFresh NoSpuriousRefusal PadWrittenForThisMessage"]
    lines.append("CHECK_DEADLOCK FALSE")
    p = sesscheck.write_cfg("\n".join(lines) + "\n", "MC_Privacy_%s_%s.cfg" % (cipher, "x" if export else "mc"))
    return tlc.run_tlc("MC_Privacy.tla", p, workers=8, timeout=1800, coverage=not export)


def trace_cfg(props):
    return sesscheck.write_cfg("SPECIFICATION TSpec\nCONSTANTS\n  MaxSid = 4\n  Props = %s\nPOSTCONDITION TraceAccepted\nCHECK_DEADLOCK FALSE\n" % props,
                               "TraceSession_%s.cfg" % props.replace('"', "").replace("{", "").replace("}", "").replace(",", "_").replace(" ", ""))


def histories(chk, thorough, export_steps):
    """export scripts once per cipher (salt start collapsed by dedup)"""
    out = {}
    for cipher in ("des", "aes"):
        res = mc_privacy(cipher, export_steps, export=True)
        tlc.require_ok(res, "privacy export " + cipher)
        seen, scr = set(), []
        for x in res.printed:
            if isinstance(x, dict) and "script" in x:
                k = json.dumps(x["script"], sort_keys=True)
                if k not in seen:
                    seen.add(k)
                    scr.append(x["script"])
        chk.add_tlc(res, "privacy export %s" % cipher)
        out[cipher] = scr
    return out


def signature(cfgname, script, upto_event, ev):
    cipher = "des" if "des" in cfgname else "aes"
    # history shape before the failing send: was there an encrypt since the last decrypt / key installation?
    prior = [a["a"] for a in script]
    return dict(cipher=cipher, ev=ev["ev"], got=ev.get("exc") or "sent")


def shared_pw_sessions(rec, pi):
    pw = [b"one-password-for-all", b"maplesyrup"][pi]
    order = [("sha1", "aes"), ("md5", "aes"), ("md5", "des"), ("sha1", "des"), ("md5", "aes"), ("sha1", "aes"), ("sha1", "des"), ("md5", "des")]
    if pi:
        order = order[::-1]
    out = []
    for si, (alg, priv) in enumerate(order):
        cfg = rawdrv.Cfg("v3", user="share%d" % si, engine=bytes([0x80, 0, 0x1f, 0x88, 0x80, pi, si, 3, 3]), auth=alg, akt="password", akm=pw if si % 2 else pw + b"-a",
                         priv=priv, pkt="password", pkm=pw)
        s = [{"a": "send", "n": 5}, {"a": "reply-enc"}, {"a": "send", "n": 8}, {"a": "reply-enc"}]
        a, b = v3hist.run_history(rec, cfg, s, variant=si)
        out.append((a, b, dict(cfgname="shared-pw:%s-%s" % (alg, priv), script=s, shared=dict(pi=pi, si=si))))
    return out


def run_common(chk, tier, props, label):
    thorough = tier == "thorough"
    # design level
    for cipher in ("des", "aes"):
        res = mc_privacy(cipher, 6 if thorough else 5)
        tlc.require_ok(res, "MC_Privacy " + cipher)
        tlc.require_coverage(res, ["Encrypt", "Decrypt", "NoReply", "SetKeys", "SetKeysRefused"], "MC_Privacy " + cipher)
        chk.add_tlc(res, "MC_Privacy %s" % cipher)
    hs = histories(chk, thorough, 5 if thorough else 4)
    std = scripts.all_cfgs()
    rec = trace.Recorder(label)
    runs = []
    # users whose auth and privacy keys are of different key types: histories that install keys (set_keys) and those that do not
    for mi, (cn, cfg) in enumerate(sorted(scripts.mixed_cfgs().items())):
        scr = hs["des" if cfg.priv == "des" else "aes"]
        withkeys = [s for s in scr if any(a["a"] == "set-keys" for a in s) and any(a["a"] == "send" for a in s)]
        without = [s for s in scr if not any(a["a"] == "set-keys" for a in s) and sum(1 for a in s if a["a"] == "send") >= 2]
        pick = withkeys[(mi + SEED) % 6::6] + without[(mi + SEED) % 15::15] if not thorough else withkeys + without
        for si, s in enumerate(pick):
            a, b = v3hist.run_history(rec, cfg, s, variant=si)
            runs.append((a, b, dict(cfgname=cn, script=s)))
            chk.case((cn, json.dumps(s, sort_keys=True)), nontrivial=True)
    for cipher, scr in hs.items():
        for ci, cn in enumerate(CIPHER_CFGS[cipher]):
            for si, s in enumerate(scr):
                if not thorough and (si + ci + SEED) % 3:
                    continue
                if not any(a["a"] == "send" for a in s):
                    continue
                a, b = v3hist.run_history(rec, std[cn], s, variant=si)
                runs.append((a, b, dict(cfgname=cn, script=s)))
                chk.case((cn, json.dumps(s, sort_keys=True)), nontrivial=sum(1 for x in s if x["a"] == "send") >= 2)
    # scoped-PDU length sweep: every residue modulo the cipher block (padding arithmetic), answered and unanswered
    for cn in ("v3-md5-des", "v3-sha1-aes", "v3-sha1-des", "v3-md5-aes"):
        cfg = std[cn]
        a = rec.n
        sess = rawdrv.RawSession(rec, cfg)
        agent = ag.Agent(engine=cfg.engine)
        for k in range(0, 40 if not thorough else 140):
            # one more arc (1 octet) per step, then multi-octet arcs
            oid = "1.3.6.1" + "".join(".%d" % ((j * 7) % 100 + 1) for j in range(k % 35)) + (".300" * (k // 35))
            w, exc = sess.send("get", [oid])
            if w is not None and k % 3 == 0:
                req = ag.Request(cfg, w)
                sess.inject(agent.reply(cfg, req, [(bytes(n), ("int", k)) for n in req.names]))
                sess.recv("get")
        sess.close()
        runs.append((a, rec.n, dict(cfgname=cn, script=[{"a": "length-sweep"}])))
        chk.case((cn, "length-sweep"))
    # a long run of unanswered requests on one session (the private buffer must not accumulate)
    for cn in ("v3-md5-des", "v3-sha1-aes"):
        s = [{"a": "send", "n": 5}] * (200 if thorough else 90)
        a, b = v3hist.run_history(rec, std[cn], s)
        runs.append((a, b, dict(cfgname=cn, script=[{"a": "send", "n": 5, "times": len(s)}])))
        chk.case((cn, "unanswered-run"))
    # one password for the authentication and privacy keys of users created back to back under alternating digests with the SAME
    # cipher (and alternating ciphers under the same digest), in both orders: what a password expands to depends on the user's digest
    # only - nothing remembered from one user may serve another (RFC 3414 A.2)
    for pi in (0, 1):
        for a, b, info in shared_pw_sessions(rec, pi):
            runs.append((a, b, info))
            chk.case(("shared-password", pi, info["shared"]["si"], info["cfgname"]), nontrivial=True)
    # public-API histories of privacy users: discovery datagrams lost, enter / refresh retried, then requests
    from checks import c13
    for a, b, info in c13.lost_discovery_histories(rec, [("md5", "des", "password"), ("sha1", "aes", "master"), ("md5", "aes", "password")], thorough, base_idx=300):
        info.update(cfgname="api:%s-%s" % (info["auth"], info["priv"]), script=[{"a": "api-history", "calls": info["calls"]}])
        runs.append((a, b, info))
    rec.close()
    print("  %d histories, %d events" % (len(runs), rec.n), flush=True)
    v = trace.validate_parallel("TraceSession.tla", trace_cfg(props), rec.events, [(a, b) for a, b, _ in runs], k=12, name=label)
    for i, r in enumerate(v["results"]):
        chk.add_tlc(r, "TraceSession(%s)#%d" % (label, i))
    chk.traces += len(runs)
    fails = []
    ri = 0
    for idx in v["fails"]:
        while runs[ri][1] <= idx:
            ri += 1
        a, b, info = runs[ri]
        fails.append((idx, a, info, rec.events[idx]))
    return fails, rec, runs


def run(tier):
    chk = Check(PROP, tier)
    chk.rule = ("every behaviour of Privacy.tla (<=4-5 steps over send(3 PDU shapes) / encrypted reply / plaintext report / timeout / set_keys) "
                "on real DES and AES sessions + a run of 90-200 unanswered requests; distinct = (config, history); non-trivial = history with >= 2 sends")
    fails, rec, runs = run_common(chk, tier, PROPS, "c11")
    for idx, a, info, ev in fails:
        if info.get("api_history"):
            from checks import c13
            chk.violation(dict(kind="api-history", client=info["kind"], ev=ev["ev"], op=ev.get("op"), got=ev.get("exc") or "ok"),
                          "%s session configured with auth=%s priv=%s, calls %s with datagrams %s lost: %s (%s) - a request left that is not encrypted as the configured user's" %
                          (info["kind"], info["auth"], info["priv"], info["calls"], [k for k, p in enumerate(info["plan"]) if p == "drop"], ev["ev"], ev.get("op")),
                          dict(info=info), confirm=(confirm_by_replay(c13.replay, dict(info=info)) if timing_event(ev) else None))
            continue
        cipher = "des" if "des" in info["cfgname"] else "aes"
        # shape: number of sends since the private buffer was last reset (decrypt / set_keys) before the failing event
        evs = rec.events[a:idx + 1]
        since = 0
        for e in evs[:-1]:
            if e["ev"] == "Send" and not e.get("exc"):
                since += 1
            if e["ev"] == "SetKeys" or (e["ev"] == "Recv" and not e.get("exc")):
                since = 0
        sig = dict(cipher=cipher, ev=ev["ev"], after_unanswered_send=since > 0, got=ev.get("exc") or "sent")
        chk.violation(sig, "%s: %s after %d unanswered send(s): %s" % (info["cfgname"], ev["ev"], since, (ev.get("exc") or "msgData length %d" % len(ev.get("wire", [])))),
                      dict(cfgname=info["cfgname"], script=info["script"], failing_event_index=idx - a, shared=info.get("shared")))
    chk.sample(dict(kind="history", script=runs[3][2]["script"], cfg=runs[3][2]["cfgname"]))
    chk.assumptions += ["DES-CBC / AES-128-CFB / HMAC / key localisation interpreted by harness/py/vlib/refcrypto.py (FIPS/RFC vectors, openssl cross-check)"]
    return chk.finish()


def replay(path):
    d = json.load(open(path))
    r = d["replay"]
    if r.get("info", {}).get("api_history"):
        from checks import c13
        rc = c13.replay(path)
        if rc == 1:
            print("VIOLATION property=%s replay=%s" % (PROP, path))
        return rc
    rec = trace.Recorder("c11-replay")
    if r.get("shared"):
        shared_pw_sessions(rec, r["shared"]["pi"])          # the whole sequence: the failure depends on the sessions created before
        v = trace.validate("TraceSession.tla", trace_cfg(PROPS), rec.close())
        if v["accepted"] and not v["fails"]:
            print("replay: accepted")
            return 0
        print("VIOLATION property=%s replay=%s" % (PROP, path))
        return 1
    s = r["script"]
    if s and "times" in s[0]:
        s = [{"a": "send", "n": s[0]["n"]}] * s[0]["times"]
    a, b = v3hist.run_history(rec, scripts.all_cfgs()[r["cfgname"]], s)
    v = trace.validate("TraceSession.tla", trace_cfg(PROPS), rec.close())
    if v["accepted"] and not v["fails"]:
        print("replay: accepted")
        return 0
    print("VIOLATION property=%s replay=%s" % (PROP, path))
    return 1
