"""Regenerates /verif/MANIFEST.json from the table below (single place to edit claims)."""
import json, os, subprocess
VERIF = os.path.abspath(os.path.join(os.path.dirname(__file__), "..", ".."))
HOOK_COMMITS = ["926b3d3"]
TLC_TECH = "TLA+ model checking (TLC) + trace validation of the real code against the specification"
CLAIMS = {
 "C01": dict(
   text="Malform.tla (TLC) walks 14 well-formed templates (v1/v2c/v3 x Response/Report x plain/auth/DES/AES, all value kinds, exception values, a plaintext scoped PDU) and applies at every TLV node every mutation derived from the BER position machine (truncation at every offset, length-octet rewrites, long forms of 1..9 octets, every known tag, class/constructed bits, long-form tags, emptied/inserted contents, trailing octets: 11 000 datagrams); a family of 36 relative-OID replies, ByteStrings.tla (all strings of <=4-5 octets over 14 byte classes) and all 65 792 strings of <=2 octets are added. Every datagram goes to the three message decoders, SnmpValue::from_ber and both ciphers' decrypt (Rust replay binary, release semantics, catch_unwind, time limit) and to real sessions of the matching version/security level with each of get/get_many/getnext/getbulk/refresh pending (ids patched to match, mutated scoped PDUs encrypted under the session key, odd privacy-parameter/ciphertext sizes). TraceCodec.tla judges totality: ok/err from decoders; a value, a skip or a documented Exception from the API - never PanicException, abort or hang.",
   note="Memory safety ('touches memory outside the received bytes') is only observed through functional symptoms on the replayed inputs, not proved (DESIGN.md 6). Datagrams are <= ~300 octets in the structured corpus.",
   ref="DESIGN.md 5 C01", technique="TLC-generated malformed-datagram corpus (position-machine mutations) + TLC trace validation of totality on decoders and real sessions"),
 "C02": dict(
   text="Values.tla (TLC) enumerates boundary encodings of every SNMP value type and boundary OID names; each is carried at first/middle/last position of replies to get/get_many/getnext/getbulk over v1, v2c and v3 (plain, auth, DES, AES) on the real sockets, together with seeded random values over the full ranges (i64, u32, u64, octets, arcs < 2^32, REAL). TraceSession.tla decodes the logged reply octets with the TLA+ BER/SNMP codec and requires the Python result to equal PyValue(Denote(varbind)) and the key to equal OidToText(name).",
   note="Rounding of decimal REALs and >53-bit mantissas is delegated to CPython float/fractions (uninterpreted in the spec). Replies are built by an untrusted reference encoder whose every octet is re-decoded by TLC.",
   ref="DESIGN.md 5 C02", technique="TLC-generated value corpus + TLC trace validation with the TLA+ BER codec as value oracle"),
 "C03": dict(
   text="Pool.tla is model-checked by TLC (MessagesStartEmpty, PoolBounded) over every history of calls on two sessions (5 operations x 6 fates: answered, stray-then-answered, timeout, decode error, oversize, abandoned). Every history of length 2 (3 sampled in thorough) is replayed on pairs of real sockets of different versions/security levels sharing the process-wide buffer pool, together with seeded random calls (random OID lists, max_repetitions up to 2^31-1) and the fetch() policy of the real sync/async SnmpSession. TraceSession.tla decodes every emitted datagram with the TLA+ codec and requires canonical minimal encoding, the session's version and credentials (community; user/engine id/boots/time/flags), the PDU type of the call, non-repeaters 0 and the requested max-repetitions, a request-id in 0..2^31-1 and the requested OIDs in order each bound to NULL.",
   note="Histories are sequential (one thread): concurrent use of the pool from several Python threads is outside this check.",
   ref="DESIGN.md 5 C03", technique="TLC model checking of Pool.tla + exhaustive history replay + TLC trace validation of every emitted datagram"),
 "C04": dict(
   text="Session.tla is model-checked by TLC (DeliverOnlyCurrent, SkipKeepsWaiting, UndecodableEndsCall, LaterMatchDelivered) over all interleavings of sends, receive-loop iterations and injections of the curated fault alphabet; every completed behaviour within the bound is replayed on the real raw sockets of each version/security level and the recorded trace (all octets both ways) is judged by TraceSession.tla, which decodes the datagrams itself and computes each call's required outcome from the ids actually on the wire.",
   note="Bounded: <=2-3 requests, <=2 queued datagrams, <=2-4 injections per behaviour; loopback UDP assumed order-preserving; HMAC/ciphers interpreted by reference implementations.",
   ref="DESIGN.md 5 C04", technique="TLC model checking of Session.tla + exhaustive behaviour replay + TLC trace validation (TraceSession.tla)"),
 "C05": dict(
   text="Mibs.tla (TLC) enumerates every MIB over a 7-name universe (multi-octet arcs 128/16384, nested subtrees, entries before/after) x 7 base OIDs (896 pairs) and computes the list a correct walk must yield; Walk.tla (TLC) is the design-level model of the iterator. An honest RFC 3416 agent serves each MIB to the REAL SnmpSession iterators (getnext, getbulk with max_repetitions x agent cap in 1..3, fetch; sync and async; v1, v2c, v3). TraceSession.tla judges every request (PDU type, follow-up OID = last accepted, max-repetitions), every yield (next pair of the reply, exact value) and requires yielded = Subtree(MIB, base) at the end.",
   note="The agent's honesty is harness code; the final comparison with the TLC-computed subtree makes a dishonest agent show up as a (false) failure rather than a missed one. Quick tier samples the sync / v1 / v3 combinations.",
   ref="DESIGN.md 5 C05", technique="TLC-enumerated MIB space + TLC model of the iterator + trace validation of the real SnmpSession iterators"),
 "C06": dict(
   text="Walk.tla is model-checked by TLC against an unconstrained agent (YieldInsideSubtree, YieldStrictlyIncreasing, FollowUpIsLastAccepted, BoundedProgress, StopsOnNoData). Every (state, reply) transition of its state graph becomes one implementation test: the replies of a shortest path plus the reply are played by a scripted agent to the real getnext/getbulk iterators (sync, async; v1, v2c, v3), together with random reply scripts; TraceSession.tla judges requests (none after the end), yields (inside, strictly increasing, exact, in order) and termination (a walk still running after 40 yields is reported).",
   note="If the first reply names the base OID itself both 'yield it' and 'stop' are accepted (statement silent). Bounded to replies of <=2-3 pairs over a 5-OID universe exhaustively, random beyond.",
   ref="DESIGN.md 5 C06", technique="TLC model checking of Walk.tla + one implementation test per transition + TLC trace validation"),
 "C07": dict(
   text="Replies.tla (TLC) enumerates the complete table of replies with 0..3 varbinds over {int, octets, NULL, noSuchObject, noSuchInstance, endOfMibView} x two names (duplicates included) x PDU type {Response, Report, echoed request} (5655 entries), evaluates the required get/get_many mapping over the whole table, and every entry is replayed through get and get_many on real v1/v2c/v3 sockets; TraceSession.tla decodes the reply octets and judges value / None / exception class / dict contents.",
   note="Exception classes are compared by identity with the classes the library exports (SnmpError family). Duplicate names in get_many: either occurrence's value is accepted.",
   ref="DESIGN.md 5 C07", technique="TLC-enumerated reply table + TLC trace validation (Wire!GetResult / GetManyResult)"),
 "C08": dict(
   text="OidTexts.tla (TLC) enumerates 18432 strings from a token grammar (1..3 arcs over 26 boundary/bad tokens, one bad token per position, dot placement, 2..129 arcs), checks print(parse(s)) = s and canonicity at design level, and classifies each string; every string goes through get_many() and GetIter() on a real socket, and TraceSession.tla requires refusal <=> nothing sent, sent OID octets = OidFromText(s), and the echoed OID rendered back to identical text.",
   note="Strings on which the statement is silent (leading '+', leading zeros, second arc >= 40 under first arc 2) may be refused or sent as exactly the denoted OID.",
   ref="DESIGN.md 5 C08", technique="TLC grammar enumeration with design-level round-trip law + TLC trace validation"),
 "C09": dict(
   text="Real v3 sockets are swept over everything that moves the msgAuthenticationParameters offset (engine id / user name lengths, boots/time widths adopted from replies, request sizes across length-form boundaries) x {MD5, SHA-1} x {none, DES, AES} x {password, master, localized} keys, sharing the buffer pool with another session, plus sessions without a key. TraceSession.tla (Props={C09}) decodes each datagram, locates the 12 octets itself, zeroes them and requires them to equal HMAC96(alg, Kul(user key, engine id in the message), zeroed message); the two uninterpreted terms are evaluated by hashlib on exactly the arguments TLC derived. Session.tla is model-checked for the authenticated configuration.",
   note="MD5/SHA-1/HMAC and RFC 3414 key localisation are uninterpreted in the specification and interpreted by hashlib. Buffer.tla's bookmark lemma is part of the C17 check.",
   ref="DESIGN.md 5 C09", technique="TLC trace validation with uninterpreted HMAC terms bound by an interpretation table"),
 "C10": dict(
   text="Session.tla with the forged-security mutants in its alphabet is model-checked by TLC (AcceptOnlyAuthenticated holds for the required design; DEV_NoIncomingMacCheck reproduces the pinned behaviour and TLC returns the counterexample). Forgeries.tla (TLC) enumerates the complete matrix MAC {valid, zero, random, bit-flipped, absent} x auth flag x msgData {encrypted, clear, other key} x {Response, Report} with the required verdict; every cell is sent as the only reply to a pending get/get_many/getnext/getbulk on real sockets for {MD5, SHA-1} x {none, DES, AES}. TraceSession.tla verifies the MAC term itself (HMAC interpreted by hashlib over the octets TLC zeroed) and requires the call to keep waiting unless the reply is authentic.",
   note="The pinned commit never verified an incoming MAC or security level (19 forged Response classes delivered): repaired by fix 37facd1, listed under 'fixed' in known_findings.json; the whole matrix must now pass.",
   ref="DESIGN.md 5 C10, 7", technique="TLC model checking of Session.tla + TLC-enumerated forgery matrix + TLC trace validation"),
 "C11": dict(
   text="Privacy.tla is model-checked by TLC (PayloadIsScopedPdu, SaltFresh, NoSpuriousRefusal over all histories of sends, encrypted replies, plaintext reports, timeouts, set_keys; the pinned DES defect is reproduced by DEV_DesNoReset). Every behaviour within the bound plus a run of 90-200 unanswered requests is replayed on real DES/AES sessions (MD5/SHA-1, password/master/localized keys, varying boots/time); each emitted msgData is decrypted by the reference cipher under the independently derived key/IV and TraceSession.tla (Props={C11}) requires the plaintext to decode to exactly the scoped PDU of the request followed by < 1 block of padding; encrypted agent replies must be delivered with their exact content.",
   note="DES-CBC / AES-128-CFB / key localisation are uninterpreted in the specification; the interpretation is a pure-Python reference validated on FIPS/RFC vectors and against the openssl CLI.",
   ref="DESIGN.md 5 C11", technique="TLC model checking of Privacy.tla + behaviour replay + TLC trace validation"),
 "C12": dict(
   text="KeySetup.tla is the dispatch specification (which derivation applies to which algorithm code / key type / key length, what must be refused); MC_KeySetup.tla (TLC) enumerates the 39204-entry table with design-level sanity checks. Entries are replayed on the real SnmpV3ClientSocket constructor and set_keys(); get_master_key / get_localized_key are called over password length classes {0,1,2,3,5,8,1000,2^20-1,2^20,2^20+1}, engine ids of 0..32 octets, both digests and invalid codes; the Python User/Md5Key/Sha1Key padding is exercised. TraceKeys.tla judges refusal (a documented Exception, never a PanicException) vs acceptance and equality of the returned octets with the uninterpreted terms Kmaster/Kul as interpreted by hashlib. The key actually installed is observed through the next emitted message, whose MAC and ciphertext TraceSession.tla verifies under the key the specification derives.",
   note="The claim is structural (dispatch + refusals) plus a reference comparison of digest outputs on the explored inputs: MD5/SHA-1 are uninterpreted in the specification. Quick tier replays ~1/7 of the dispatch table.",
   ref="DESIGN.md 5 C12", technique="TLC-enumerated dispatch table (KeySetup.tla) + TLC trace validation with uninterpreted digest terms"),
 "C13": dict(
   text="Usm.tla is model-checked by TLC (ViewFollowsAgent, StampFollowsAgent, EngineLearnedOnce, KeysLocalizedToLearned, GivenEngineUsedFromFirstMessage, NoRequestBeforeKeys) over all interleavings of probes, requests, accepted/lost replies, key installation and changes of the agent's identity and clock. The real sync (`with SnmpSession`) and async (`async with`) clients are driven through discovery -> set_keys -> time sync -> requests -> refresh() against a scripted v3 agent (engine ids of 5/17/32 octets, a second identity, changing boots/time, dropped replies) for {no auth, MD5, SHA-1} x {none, DES, AES} x {password, master, localized} x {engine id given, discovered}. TraceSession.tla reads the USM header of every successive request: engine id learned once or given, boots/time of the most recent accepted message, MAC valid and payload decryptable under keys localised to that engine id.",
   note="The socket inside SnmpSession is wrapped by a recording proxy (the library code itself is unmodified). Scenario enumeration (call sequences x agent plans) is done by the driver; quick tier runs 1/9 of the product.",
   ref="DESIGN.md 5 C13", technique="TLC model checking of Usm.tla + trace validation of the real sync/async clients against a scripted v3 agent"),
 "C14": dict(
   text="Privacy.tla (TLC) establishes salt freshness per key installation with the counter modelled modulo 8. Long seeded single-session runs (8400 / 96000 messages) of mixed requests interleaved with encrypted replies, plaintext reports, timeouts and set_keys are recorded from real DES and AES sessions; TraceSession.tla (Props={C14}) requires of every datagram: 8-octet msgPrivacyParameters never seen before in the key installation and equal to the previous + 1 (DES: boots || 32-bit counter, AES: 64-bit counter), priv flag set, msgData an OCTET STRING, and no occurrence of the request's OID octets anywhere in the datagram.",
   note="2^32 messages are not executed; uniqueness beyond the run follows from the +1 step and the transmitted counter width.",
   ref="DESIGN.md 5 C14", technique="TLC model checking of Privacy.tla (salt counter) + long-run TLC trace validation"),
 "C15": dict(
   text="MC_Codec.tla (TLC) establishes the encode/decode laws of the specification's own codec over bounded universes (all signed values of <=1-2 octets, length forms, truncation, OID prefix/order lemmas). The library's INTEGER encoder/decoder is run over every value of 1..2 (thorough 1..3) content octets, neighbourhoods of every +-2^(8k-1)/+-2^(8k) and random i64; OID text->octets->TLV->text over the grammar corpus; whole v1/v2c/v3 request messages are encoded and decoded back by the library; arbitrary i64 also reach the wire through the public API (max_repetitions). TraceCodec.tla / TraceSession.tla judge every record: encoding = the minimal X.690 form computed by the specification, decode(encode(x)) = x, nothing left over.",
   note="Batched validation (4000 records per event). Messages that do not fit the buffer are outside C15 (see C17).",
   ref="DESIGN.md 5 C15", technique="TLC-checked codec laws + batched TLC trace validation of the library's encoders/decoders"),
 "C16": dict(
   text="MC_Codec.tla (TLC) establishes the extent laws of the specification's header parser. On the real decoders (Rust replay binary) the metamorphic relation from_ber(x || s) = (s, value(x)) is checked for every encoding x of the TLC-generated value corpus (every type, boundary forms) x 7 suffixes through SnmpValue::from_ber and the typed decoders; nested tampering and trailing octets on whole messages come from Malform.tla (10 000 mutants: length rewrites, long forms incl. 8-9 length octets, truncation at every offset, inserted/trailing octets at every TLV node of 13 templates) through the v1/v2c/v3 message decoders. TraceCodec.tla judges every record with the TLA+ header parser: remaining input is exactly the appended octets, the value is unchanged, and a message whose inner declared length runs past its enclosing element or that carries octets after the top-level message is rejected.",
   note="Octets after the last field but inside an enclosing SEQUENCE (after msgData, after the PDU, inside a varbind) are tolerated-or-refused (the statement is silent); the body of a Report PDU is not interpreted by the client and only totality is required there.",
   ref="DESIGN.md 5 C16", technique="TLC-checked extent laws + TLC-generated (x, suffix) and malformed-message corpora + batched TLC trace validation of the real decoders"),
 "C17": dict(
   text="Buffer.tla is model-checked by TLC (InBounds, NoUnwrittenExposed, FailChangesNothing, BookmarkLemma) over all operation sequences on a small buffer. At the real capacity (measured from the library) the transitions of the model's graph over the boundary argument set x {push, push_tag_len, skip(+fill), reset, MAC placeholder} are replayed on a REAL Buffer (shortest path + transition) and TraceBuffer.tla judges result, len()/free() and the exact run-length-encoded contents of data() after every step. Through the public API request sizes are swept across the 127/128, 255/256 and capacity boundaries at each nesting level on v1/v2c/v3 (plain/auth/DES/AES): TraceSession.tla requires that a refused request put nothing on the wire and really does not fit (size arithmetic of SNMP.tla), that every sent request decodes to exactly the call, and that the session still emits correct requests afterwards.",
   note="An out-of-bounds access without functional symptom (result, lengths, contents unchanged) is not observable by this technique (DESIGN.md 6). Quick tier replays ~1800 sampled transitions; thorough all ~450k.",
   ref="DESIGN.md 5 C17", technique="TLC model checking of Buffer.tla + one implementation test per transition on the real Buffer + TLC trace validation of a request-size sweep"),
 "C18": dict(
   text="Timeout.tla (explicit discrete time) is model-checked by TLC: ReturnsByDeadline, FinishedInTime, MatchInTimeDelivered over all 792 arrival schedules of <=4 non-matching datagrams at ticks 1..7 plus an optional matching reply; DEV_RearmTimeoutOnSkip reproduces the pinned sync client and TLC returns the counterexample. The schedules of the shape the property names (strays spaced closer than the timeout; reply in time, late, never) are replayed in real time (tick 125 ms, timeout 0.5 s) through the real sync and async SnmpSession.get() over v1/v2c/v3 against a timed agent; TraceTimeout.tla judges outcome and elapsed time against the model with 250 ms slack, and a failing case is reported only after failing three times in a row.",
   note="Wall-clock measurement: a regression smaller than the slack (250 ms) is not detected. The replayed subset is 48 (thorough 150) of the 792 schedules.",
   ref="DESIGN.md 5 C18", technique="TLC model checking of Timeout.tla (explicit time) + real-time schedule replay judged by TLC"),
 "C19": dict(
   text="TLC checks delay<=D, slot invariants and the k-window bound on Policer.tla for all phase offsets x gaps (several D); Apalache discharges the inductive invariant for symbolic D and unbounded times; the real RPSPolicer is driven through every transition of the exported graph (get_timeout, wait_sync, wait under a virtual clock) and through random call sequences, and every observed run is judged by TracePolicer.tla at property level.",
   note="Assumes sequential calls on a monotonic clock (the property's hypothesis) and that sleep() sleeps at least what is asked. Window bound for all k follows arithmetically from the inductive invariant.",
   ref="DESIGN.md 5 C19", technique="TLA+ model checking (TLC) + Apalache inductive invariant + trace validation / graph replay against the real RPSPolicer"),
}
NOT_YET = "check not built yet in this round (work in progress; see DESIGN.md)"


def main():
    props = [json.loads(l) for l in open(os.path.join(VERIF, "properties.jsonl"))]
    m = {"version": 1, "setup_cmd": "bin/setup",
         "hooks": {"guard": "gufo_snmp_verif",
                   "enable": "RUSTFLAGS=\"--cfg gufo_snmp_verif --check-cfg cfg(gufo_snmp_verif)\" (set by bin/build)",
                   "baseline_off_cmd": "cd /repo && cargo test --workspace --no-fail-fast --offline",
                   "source_commits": HOOK_COMMITS, "add_only": True},
         "engines": [{"name": "tlc", "path": "/opt/veriftools/tla/tla2tools.jar", "serves_properties": sorted(CLAIMS),
                      "kind_free_text": "explicit-state model checker for the TLA+ specification in /verif/spec; also judges recorded traces (trace validation)"},
                     {"name": "apalache", "path": "/opt/veriftools/apalache", "serves_properties": ["C19"],
                      "kind_free_text": "symbolic checker used for the policer's inductive invariant"}],
         "checks": [], "notes": "All checks: bin/check <id> <quick|thorough>; replay: bin/check <id> --replay <file>. Known findings: known_findings.json. See DESIGN.md.",
         "not_applicable": []}
    for p in props:
        pid = p["id"]
        if pid in CLAIMS:
            c = CLAIMS[pid]
            m["checks"].append({"property_id": pid, "quick_cmd": "bin/check %s quick" % pid, "thorough_cmd": "bin/check %s thorough" % pid,
                                "evidence_file": "/verif/evidence/%s.json" % pid, "replay_cmd_template": "bin/check %s --replay {path}" % pid,
                                "engine": "tlc",
                                "level_claimed": {"category": "model_checking", "text": c["text"], "design_ref": c["ref"]},
                                "level_note": c["note"], "technique": c.get("technique", TLC_TECH)})
        else:
            m["not_applicable"].append({"property_id": pid, "reason": NOT_YET})
    json.dump(m, open(os.path.join(VERIF, "MANIFEST.json"), "w"), indent=1)
    try:
        subprocess.run(["python3-vt", "-c", "import json,jsonschema;jsonschema.validate(json.load(open('%s/MANIFEST.json')),json.load(open('/root/.vp/MANIFEST.schema.json')));print('manifest valid')" % VERIF], check=True)
    except Exception as e:
        print("manifest validation skipped/failed:", e)


if __name__ == "__main__":
    main()
