// Conformance replay binary: reads one JSON request per line on stdin, runs the
// *real* gufo_snmp code (sources of the repository under test compiled as an
// rlib, release semantics) and writes one JSON observation per line on stdout.
// The binary never judges: it only reports what the code did (value, error
// class, panic).  Panics in code under test are data ("r":"panic").
use gufo_snmp::ber::{
    BerDecoder, BerEncoder, SnmpInt, SnmpNull, SnmpOctetString, SnmpOid, SnmpReal, SnmpBool,
    SnmpSequence, SnmpRelativeOid,
};
use gufo_snmp::buf::Buffer;
use gufo_snmp::error::SnmpError;
use gufo_snmp::snmp::get::SnmpGet;
use gufo_snmp::snmp::getbulk::SnmpGetBulk;
use gufo_snmp::snmp::msg::v3::{MsgData, ScopedPdu, SnmpV3Message, UsmParameters};
use gufo_snmp::snmp::msg::{SnmpPdu, SnmpV1Message, SnmpV2cMessage};
use gufo_snmp::snmp::value::SnmpValue;
use gufo_snmp::verif;
use gufo_snmp::verif::SnmpPriv;
use serde_json::{Value, json};
use std::io::{BufRead, Write};
use std::panic::{AssertUnwindSafe, catch_unwind};

fn bytes_of(v: &Value) -> Vec<u8> {
    v.as_array()
        .map(|a| a.iter().map(|x| x.as_u64().unwrap_or(0) as u8).collect())
        .unwrap_or_default()
}

fn jb(b: &[u8]) -> Value {
    Value::Array(b.iter().map(|x| json!(*x)).collect())
}

fn err_name(e: &SnmpError) -> String {
    let s = format!("{:?}", e);
    match s.find('(') {
        Some(i) => s[..i].to_string(),
        None => s,
    }
}

fn nom_err(e: nom::Err<SnmpError>) -> String {
    let e: SnmpError = e.into();
    err_name(&e)
}

fn i64_of(v: &Value) -> i64 {
    if let Some(s) = v.as_str() {
        s.parse::<i64>().unwrap()
    } else {
        v.as_i64().unwrap()
    }
}

fn v3_repr(m: &SnmpV3Message) -> String {
    let data = match &m.data {
        MsgData::Plaintext(s) => format!(
            "plain ctx={} {}",
            hexs(s.engine_id),
            verif::pdu_repr(&s.pdu)
        ),
        MsgData::Encrypted(x) => format!("enc {}", hexs(x)),
    };
    format!(
        "v3 msgid={} fa={} fp={} fr={} eng={} boots={} time={} user={} auth={} priv={} {}",
        m.msg_id,
        m.flag_auth,
        m.flag_priv,
        m.flag_report,
        hexs(m.usm.engine_id),
        m.usm.engine_boots,
        m.usm.engine_time,
        hexs(m.usm.user_name),
        hexs(m.usm.auth_params),
        hexs(m.usm.privacy_params),
        data
    )
}

fn hexs(b: &[u8]) -> String {
    b.iter().map(|x| format!("{:02x}", x)).collect()
}

fn do_decode_msg(ver: &str, b: &[u8]) -> Value {
    match ver {
        "v1" => match SnmpV1Message::try_from(b) {
            Ok(m) => json!({"r":"ok","repr":format!("v1 comm={} {}", hexs(m.community), verif::pdu_repr(&m.pdu))}),
            Err(e) => json!({"r":"err","e":err_name(&e)}),
        },
        "v2c" => match SnmpV2cMessage::try_from(b) {
            Ok(m) => json!({"r":"ok","repr":format!("v2c comm={} {}", hexs(m.community), verif::pdu_repr(&m.pdu))}),
            Err(e) => json!({"r":"err","e":err_name(&e)}),
        },
        "v3" => match SnmpV3Message::try_from(b) {
            Ok(m) => json!({"r":"ok","repr":v3_repr(&m)}),
            Err(e) => json!({"r":"err","e":err_name(&e)}),
        },
        _ => json!({"r":"tool-error"}),
    }
}

fn do_decode_value(b: &[u8]) -> Value {
    match SnmpValue::from_ber(b) {
        Ok((rest, v)) => json!({"r":"ok","repr":verif::value_repr(&v),"rest":rest.len()}),
        Err(e) => json!({"r":"err","e":nom_err(e)}),
    }
}

fn do_decode_typed(t: &str, b: &[u8]) -> Value {
    macro_rules! go {
        ($ty:ty, $f:expr) => {
            match <$ty>::from_ber(b) {
                Ok((rest, v)) => json!({"r":"ok","repr":$f(v),"rest":rest.len()}),
                Err(e) => json!({"r":"err","e":nom_err(e)}),
            }
        };
    }
    match t {
        "int" => go!(SnmpInt, |v: SnmpInt| format!("int:{}", v.verif_value())),
        "bool" => go!(SnmpBool, |v: SnmpBool| format!("bool:{}", v.verif_value())),
        "real" => go!(SnmpReal, |v: SnmpReal| format!("real:{:016x}", v.verif_value().to_bits())),
        "null" => go!(SnmpNull, |_v: SnmpNull| "null".to_string()),
        "octets" => go!(SnmpOctetString, |v: SnmpOctetString| format!("octets:{}", hexs(&verif::octets_bytes(&v)))),
        "oid" => go!(SnmpOid, |v: SnmpOid| format!("oid:{}", hexs(&verif::oid_bytes(&v)))),
        "reloid" => go!(SnmpRelativeOid, |v: SnmpRelativeOid| format!("reloid:{:?}", v)),
        "seq" => go!(SnmpSequence, |v: SnmpSequence| format!("seq:{}", hexs(&verif::seq_bytes(&v)))),
        _ => json!({"r":"tool-error"}),
    }
}

fn do_int_enc(v: i64) -> Value {
    let mut buf = Buffer::default();
    let x: SnmpInt = v.into();
    match x.push_ber(&mut buf) {
        Err(e) => json!({"r":"err","e":err_name(&e)}),
        Ok(()) => {
            let tlv = buf.data().to_vec();
            match SnmpInt::from_ber(&tlv) {
                Ok((rest, back)) => {
                    let b: i64 = back.into();
                    json!({"r":"ok","tlv":jb(&tlv),"back":b.to_string(),"rest":rest.len()})
                }
                Err(e) => json!({"r":"ok","tlv":jb(&tlv),"back":"","backerr":nom_err(e),"rest":0}),
            }
        }
    }
}

fn do_oid_text(s: &str) -> Value {
    match SnmpOid::try_from(s) {
        Err(e) => json!({"r":"err","e":err_name(&e)}),
        Ok(oid) => {
            let content = verif::oid_bytes(&oid);
            let mut buf = Buffer::default();
            let enc = oid.push_ber(&mut buf).map(|_| buf.data().to_vec());
            let text = String::try_from(&oid);
            json!({"r":"ok","content":jb(&content),
                   "tlv": enc.map(|b| jb(&b)).unwrap_or(Value::String("err".into())),
                   "text": text.unwrap_or_else(|e| format!("ERR:{}", err_name(&e)))})
        }
    }
}

// Buffer operation sequence on one real Buffer.  After every operation report
// result, len(), free(), and (optionally) data().
fn do_buffer(ops: &Value, want_data: bool) -> Value {
    let mut buf = Buffer::default();
    let mut out = Vec::new();
    for op in ops.as_array().unwrap() {
        let a = op.as_array().unwrap();
        let name = a[0].as_str().unwrap();
        let res: Result<(), SnmpError> = match name {
            "push" => buf.push(&bytes_of(&a[1])),
            "push_fill" => {
                // chunk of n octets of value x
                let n = a[1].as_u64().unwrap() as usize;
                let x = a[2].as_u64().unwrap() as u8;
                buf.push(&vec![x; n])
            }
            "push_u8" => buf.push_u8(a[1].as_u64().unwrap() as u8),
            "push_tag_len" => buf.push_tag_len(a[1].as_u64().unwrap() as u8, a[2].as_u64().unwrap() as usize),
            "push_tagged_fill" => {
                let n = a[2].as_u64().unwrap() as usize;
                let x = a[3].as_u64().unwrap() as u8;
                buf.push_tagged(a[1].as_u64().unwrap() as u8, &vec![x; n])
            }
            "skip" => {
                buf.skip(a[1].as_u64().unwrap() as usize);
                Ok(())
            }
            "fill" => {
                // write x over the whole current data() (models decrypt output filling a skipped area)
                let x = a[1].as_u64().unwrap() as u8;
                for b in buf.data_mut().iter_mut() {
                    *b = x;
                }
                Ok(())
            }
            "reset" => {
                buf.reset();
                Ok(())
            }
            "set_bookmark" => {
                buf.set_bookmark(a[1].as_u64().unwrap() as usize);
                Ok(())
            }
            _ => Err(SnmpError::NotImplemented),
        };
        let mut o = json!({"op":name,"res": match &res {Ok(())=>"ok".to_string(), Err(e)=>err_name(e)},
                           "len":buf.len(),"free":buf.free(),
                           "empty":buf.is_empty(),"full":buf.is_full()});
        if name == "set_bookmark" {
            o["bookmark"] = json!(buf.get_bookmark());
        }
        if want_data {
            o["data"] = jb(buf.data());
        }
        out.push(o);
    }
    json!({"r":"ok","steps":out})
}

#[cfg(not(verif_no_msg_enc))]
fn build_pdu<'a>(p: &'a Value, oids: &'a [SnmpOid<'a>]) -> SnmpPdu<'a> {
    let t = p["type"].as_str().unwrap();
    let id = i64_of(&p["id"]);
    match t {
        "get" => SnmpPdu::GetRequest(SnmpGet { request_id: id, vars: oids.to_vec() }),
        "getnext" => SnmpPdu::GetNextRequest(SnmpGet { request_id: id, vars: oids.to_vec() }),
        _ => {
            // getbulk: fields are pub(crate); build through decode of a canonical encoding is not
            // possible either, so the harness only supports get/getnext at the Rust level.
            SnmpPdu::GetRequest(SnmpGet { request_id: id, vars: oids.to_vec() })
        }
    }
}

// Fallback level of the harness (bin/build): the message structs are built here by struct literals, so a change that adds a
// field to one of them would stop the whole replay binary from compiling; it is then built without this operation.
#[cfg(verif_no_msg_enc)]
fn do_msg_rt(_req: &Value) -> Value {
    json!({"r":"unavailable"})
}

// Encode a request message with the library's encoder, decode it back with the
// library's decoder; report octets and the projection of the decoded message.
#[cfg(not(verif_no_msg_enc))]
fn do_msg_rt(req: &Value) -> Value {
    let ver = req["ver"].as_str().unwrap();
    let oid_texts: Vec<String> = req["pdu"]["oids"].as_array().unwrap().iter().map(|x| x.as_str().unwrap().to_string()).collect();
    let mut oids = Vec::new();
    for t in &oid_texts {
        match SnmpOid::try_from(t.as_str()) {
            Ok(o) => oids.push(o),
            Err(e) => return json!({"r":"err","e":err_name(&e),"stage":"oid"}),
        }
    }
    let comm = bytes_of(&req["community"]);
    let mut buf = Buffer::default();
    let pdu = build_pdu(&req["pdu"], &oids);
    let r = match ver {
        "v1" => SnmpV1Message { community: &comm, pdu }.push_ber(&mut buf),
        "v2c" => SnmpV2cMessage { community: &comm, pdu }.push_ber(&mut buf),
        "v3" => {
            let eng = bytes_of(&req["engine"]);
            let user = bytes_of(&req["user"]);
            let authp = bytes_of(&req["auth_params"]);
            let privp = bytes_of(&req["priv_params"]);
            SnmpV3Message {
                msg_id: i64_of(&req["msg_id"]),
                flag_auth: req["fa"].as_bool().unwrap_or(false),
                flag_priv: false,
                flag_report: req["fr"].as_bool().unwrap_or(false),
                usm: UsmParameters {
                    engine_id: &eng,
                    engine_boots: i64_of(&req["boots"]),
                    engine_time: i64_of(&req["time"]),
                    user_name: &user,
                    auth_params: &authp,
                    privacy_params: &privp,
                },
                data: MsgData::Plaintext(ScopedPdu { engine_id: &eng, pdu }),
            }
            .push_ber(&mut buf)
        }
        _ => return json!({"r":"tool-error"}),
    };
    match r {
        Err(e) => json!({"r":"err","e":err_name(&e),"stage":"encode"}),
        Ok(()) => {
            let wire = buf.data().to_vec();
            let back = do_decode_msg(ver, &wire);
            json!({"r":"ok","wire":jb(&wire),"back":back})
        }
    }
}

// Privacy: install a localized key, run a sequence of encrypt / decrypt operations on ONE key
// object (the private buffer and salt counter survive between calls, as in a session).
fn do_priv(req: &Value) -> Value {
    let code = req["cipher"].as_u64().unwrap() as u8;
    let key = bytes_of(&req["key"]);
    let mut pk = match verif::PrivKey::new(code) {
        Ok(k) => k,
        Err(e) => return json!({"r":"err","e":err_name(&e),"stage":"new"}),
    };
    if let Err(e) = pk.as_localized(&key) {
        return json!({"r":"err","e":err_name(&e),"stage":"as_localized"});
    }
    let mut out = Vec::new();
    for op in req["ops"].as_array().unwrap() {
        let name = op["op"].as_str().unwrap();
        match name {
            "encrypt" => {
                let eng = bytes_of(&op["engine"]);
                let oid_texts: Vec<String> = op["oids"].as_array().unwrap().iter().map(|x| x.as_str().unwrap().to_string()).collect();
                let oids: Vec<SnmpOid> = oid_texts.iter().map(|t| SnmpOid::try_from(t.as_str()).unwrap()).collect();
                let pdu = SnmpPdu::GetRequest(SnmpGet { request_id: i64_of(&op["id"]), vars: oids });
                let sp = ScopedPdu { engine_id: &eng, pdu };
                let boots = op["boots"].as_u64().unwrap() as u32;
                let time = op["time"].as_u64().unwrap() as u32;
                // plaintext the library would produce, for reference
                let mut pb = Buffer::default();
                let plain = sp.push_ber(&mut pb).map(|_| pb.data().to_vec());
                match pk.encrypt(&sp, boots, time) {
                    Ok((data, pp)) => {
                        let (data, pp) = (data.to_vec(), pp.to_vec());
                        out.push(json!({"op":"encrypt","res":"ok","data":jb(&data),"pp":jb(&pp),
                            "plain": plain.map(|b| jb(&b)).unwrap_or(Value::Null)}));
                    }
                    Err(e) => {
                        out.push(json!({"op":"encrypt","res":err_name(&e)}));
                    }
                }
            }
            "decrypt" => {
                let data = bytes_of(&op["data"]);
                let pp = bytes_of(&op["pp"]);
                let eng = bytes_of(&op["engine"]);
                let usm = UsmParameters {
                    engine_id: &eng,
                    engine_boots: i64_of(&op["boots"]),
                    engine_time: i64_of(&op["time"]),
                    user_name: b"",
                    auth_params: b"",
                    privacy_params: &pp,
                };
                let r = catch_unwind(AssertUnwindSafe(|| match pk.decrypt(&data, &usm) {
                    Ok(sp) => json!({"op":"decrypt","res":"ok","repr":format!("ctx={} {}", hexs(sp.engine_id), verif::pdu_repr(&sp.pdu))}),
                    Err(e) => json!({"op":"decrypt","res":err_name(&e)}),
                }));
                match r {
                    Ok(v) => out.push(v),
                    Err(_) => out.push(json!({"op":"decrypt","res":"panic"})),
                }
            }
            _ => out.push(json!({"op":name,"res":"tool-error"})),
        }
    }
    json!({"r":"ok","steps":out})
}

fn handle(req: &Value) -> Value {
    let op = req["op"].as_str().unwrap_or("");
    match op {
        "decode_msg" => do_decode_msg(req["ver"].as_str().unwrap(), &bytes_of(&req["b"])),
        "decode_value" => do_decode_value(&bytes_of(&req["b"])),
        "decode_typed" => do_decode_typed(req["t"].as_str().unwrap(), &bytes_of(&req["b"])),
        "int_enc" => do_int_enc(i64_of(&req["v"])),
        "oid_text" => do_oid_text(req["s"].as_str().unwrap()),
        "buffer" => do_buffer(&req["ops"], req["data"].as_bool().unwrap_or(false)),
        "msg_rt" => do_msg_rt(req),
        "priv" => do_priv(req),
        "getbulk_dec" => {
            let b = bytes_of(&req["b"]);
            match SnmpGetBulk::try_from(b.as_slice()) {
                Ok(_) => json!({"r":"ok"}),
                Err(e) => json!({"r":"err","e":err_name(&e)}),
            }
        }
        _ => json!({"r":"tool-error","why":"unknown op"}),
    }
}

fn main() {
    // silence the default panic message; panics are reported as data
    std::panic::set_hook(Box::new(|_| {}));
    let stdin = std::io::stdin();
    let stdout = std::io::stdout();
    let mut out = std::io::BufWriter::new(stdout.lock());
    for line in stdin.lock().lines() {
        let line = match line {
            Ok(l) => l,
            Err(_) => break,
        };
        if line.trim().is_empty() {
            continue;
        }
        let req: Value = match serde_json::from_str(&line) {
            Ok(v) => v,
            Err(e) => {
                writeln!(out, "{}", json!({"r":"tool-error","why":e.to_string()})).unwrap();
                continue;
            }
        };
        let res = catch_unwind(AssertUnwindSafe(|| handle(&req)));
        let v = match res {
            Ok(v) => v,
            Err(p) => {
                let msg = if let Some(s) = p.downcast_ref::<&str>() {
                    s.to_string()
                } else if let Some(s) = p.downcast_ref::<String>() {
                    s.clone()
                } else {
                    "?".to_string()
                };
                json!({"r":"panic","msg":msg})
            }
        };
        writeln!(out, "{}", v).unwrap();
        if req["flush"].as_bool().unwrap_or(false) {
            out.flush().unwrap();
        }
    }
    out.flush().unwrap();
}
